#!/venv/bin/python
"""compare a junit xml with BASELINE.json stable_pass: usage compare_baseline.py /tmp/base_a.xml"""
import json, sys
import xml.etree.ElementTree as ET
base = json.load(open('/root/.vp/BASELINE.json'))
stable = set(base['stable_pass'])
root = ET.parse(sys.argv[1]).getroot()
passed = set()
failed = set()
for tc in root.iter('testcase'):
    name = f"{tc.get('classname')}::{tc.get('name')}"
    bad = any(ch.tag in ('failure', 'error', 'skipped') for ch in tc)
    (failed if bad else passed).add(name)
missing = stable - passed
print('stable', len(stable), 'passed now', len(passed), 'stable-but-not-passing', len(missing))
for m in sorted(missing)[:20]:
    print('  ', m)
