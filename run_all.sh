#!/bin/sh
# run every check of one tier in sequence; one summary line per check (log: work/run_all_<tier>.log)
tier=${1:-quick}; shift
cd "$(dirname "$0")"
mkdir -p work
for c in ${@:-C01 C02 C03 C04 C05 C06 C07 C08 C09 C10 C11 C12 C13 C14 C15 C16 C17 C18 C19 C20}; do
  s=$(date +%s)
  ./check $c --tier $tier > work/out_${c}_$tier.txt 2>&1
  rc=$?
  echo "$c $tier exit=$rc wall=$(( $(date +%s) - s ))s $(grep -E "^$c $tier:" work/out_${c}_$tier.txt | tail -1) viol=$(grep -c '^VIOLATION' work/out_${c}_$tier.txt) known=$(grep -c '^KNOWN-FINDING' work/out_${c}_$tier.txt) $(grep -E '^MACHINERY' work/out_${c}_$tier.txt | head -1 | cut -c1-200)"
done
echo ALLDONE
