"""Thin driver around TLC: model checking, batch trace validation, simulation."""
import json
import os
import re
import shutil
import subprocess
import time
from concurrent.futures import ThreadPoolExecutor
from pathlib import Path

from .env import SPEC, WORK

JAR = "/opt/veriftools/tla/tla2tools.jar:/opt/veriftools/tla/CommunityModules-deps.jar"


class TLCError(RuntimeError):
    """Machinery failure (parse error, crash, timeout): exit 2, never a VIOLATION."""


def _java(args, env=None, timeout=None, cwd=None, heap="4g", gc="-XX:+UseParallelGC"):
    cmd = ["java", gc, "-Xss64m", f"-Xmx{heap}", "-cp", JAR, "tlc2.TLC"] + args
    e = dict(os.environ)
    if env:
        e.update(env)
    try:
        p = subprocess.run(cmd, env=e, cwd=cwd, capture_output=True, text=True, timeout=timeout)
    except subprocess.TimeoutExpired as ex:
        raise TLCError(f"TLC timeout after {timeout}s: {' '.join(args)}") from ex
    return p.returncode, p.stdout + p.stderr


_RE_STATES = re.compile(r"(\d+) states generated, (\d+) distinct states found, (\d+) states left")
_RE_INV = re.compile(r"Invariant (\S+) is violated")
_RE_PROP = re.compile(r"(?:Action|Temporal) propert(?:y|ies)? ?(\S*) (?:is|were) violated")


def parse_summary(out: str) -> dict:
    m = None
    for m in _RE_STATES.finditer(out):
        pass
    res = {"generated": 0, "distinct": 0}
    if m:
        res = {"generated": int(m.group(1)), "distinct": int(m.group(2))}
    mi = _RE_INV.search(out)
    res["violated"] = mi.group(1) if mi else None
    if res["violated"] is None:
        mp = _RE_PROP.search(out)
        if mp:
            res["violated"] = mp.group(1) or "property"
        elif "Error: Deadlock reached" in out:
            res["violated"] = "Deadlock"
        elif "is violated" in out or "violated." in out:
            res["violated"] = "unknown"
    res["completed"] = "Model checking completed. No error has been found." in out
    res["error"] = None
    if not res["completed"] and res["violated"] is None:
        errs = [l for l in out.splitlines() if "rror" in l]
        res["error"] = "\n".join(errs[:8]) or out[-800:]
    return res


def workdir(name: str) -> Path:
    d = WORK / name
    if d.exists():
        shutil.rmtree(d, ignore_errors=True)
    d.mkdir(parents=True, exist_ok=True)
    return d


def model_check(module: str, cfg_text: str, name: str, workers: int = 16, timeout: int = 3600,
                extra=(), heap="12g", coverage=False) -> dict:
    """Run TLC on spec/<module>.tla with the given cfg text.  Returns the parsed summary."""
    wd = workdir("mc_" + name)
    cfg = wd / f"{name}.cfg"
    cfg.write_text(cfg_text)
    args = ["-workers", str(workers), "-metadir", str(wd / "meta"), "-noGenerateSpecTE",
            "-config", str(cfg)] + list(extra)
    if coverage:
        args += ["-coverage", "1"]
    args.append(str(SPEC / f"{module}.tla"))
    t0 = time.time()
    rc, out = _java(args, timeout=timeout, cwd=str(SPEC), heap=heap)
    res = parse_summary(out)
    res.update(wall=time.time() - t0, rc=rc, name=name, module=module)
    (wd / "out.txt").write_text(out)
    shutil.rmtree(wd / "meta", ignore_errors=True)
    res["out_path"] = str(wd / "out.txt")
    return res


def model_check_start(module: str, cfg_text: str, name: str, workers: int = 6, heap="12g", extra=()):
    """Start TLC without blocking (no Python thread: the parent must stay fork()-safe)."""
    wd = workdir("mc_" + name)
    cfg = wd / f"{name}.cfg"
    cfg.write_text(cfg_text)
    args = ["-workers", str(workers), "-metadir", str(wd / "meta"), "-noGenerateSpecTE",
            "-config", str(cfg)] + list(extra) + [str(SPEC / f"{module}.tla")]
    cmd = ["java", "-XX:+UseParallelGC", "-Xss64m", f"-Xmx{heap}", "-cp", JAR, "tlc2.TLC"] + args
    outf = open(wd / "out.txt", "w")
    p = subprocess.Popen(cmd, cwd=str(SPEC), stdout=outf, stderr=subprocess.STDOUT)
    return {"proc": p, "wd": wd, "outf": outf, "t0": time.time(), "name": name, "module": module}


def model_check_finish(h, timeout=3600) -> dict:
    try:
        rc = h["proc"].wait(timeout=timeout)
    except subprocess.TimeoutExpired as ex:
        h["proc"].kill()
        raise TLCError(f"TLC timeout after {timeout}s: {h['name']}") from ex
    h["outf"].close()
    out = (h["wd"] / "out.txt").read_text()
    res = parse_summary(out)
    res.update(wall=time.time() - h["t0"], rc=rc, name=h["name"], module=h["module"], out_path=str(h["wd"] / "out.txt"))
    shutil.rmtree(h["wd"] / "meta", ignore_errors=True)
    return res


def require_ok(res: dict):
    if res.get("error") or (not res["completed"] and res["violated"] is None):
        raise TLCError(f"TLC failed on {res['name']}: {res.get('error')}")


_RE_PRINT = re.compile(r'<<"(ACCEPT|EXPECT|REJECT)", *(-?\d+)(?:, *(.*))?>>\s*$')


def _clean(x):
    """TLC's Json module rejects null: drop None-valued fields, map other None to a string."""
    if isinstance(x, dict):
        # (keys starting with "_" are harness-side provenance, not observations)
        return {k: _clean(v) for k, v in x.items() if v is not None and not (isinstance(k, str) and k.startswith("_"))}
    if isinstance(x, (list, tuple)):
        return [("None" if v is None else _clean(v)) for v in x]
    return x


def _validate_shard(trace_module, cfg_text, wd: Path, idx: int, traces, timeout, env_extra):
    tf = wd / f"shard{idx}.json"
    tf.write_text(json.dumps(_clean(traces), default=str))
    cfg = wd / f"shard{idx}.cfg"
    cfg.write_text(cfg_text)
    args = ["-workers", "1", "-metadir", str(wd / f"meta{idx}"), "-noGenerateSpecTE",
            "-config", str(cfg), str(SPEC / f"{trace_module}.tla")]
    env = {"TRACE_FILE": str(tf)}
    if env_extra:
        env.update(env_extra)
    heap = "768m" if tf.stat().st_size < 8_000_000 else "3g"
    rc, out = _java(args, env=env, timeout=timeout, cwd=str(SPEC), heap=heap, gc="-XX:+UseSerialGC")
    summ = parse_summary(out)
    accepted, info = set(), {}
    for line in out.splitlines():
        m = _RE_PRINT.search(line.strip())
        if m:
            tid = int(m.group(2))
            if m.group(1) == "ACCEPT":
                accepted.add(tid)
            else:
                info[tid] = m.group(3)
    shutil.rmtree(wd / f"meta{idx}", ignore_errors=True)
    if summ.get("error") or not summ["completed"]:
        (wd / f"shard{idx}.out").write_text(out)
        raise TLCError(f"trace validation failed ({trace_module} shard {idx}): "
                       f"{summ.get('error') or summ.get('violated')}  see {wd}/shard{idx}.out")
    return accepted, info, summ


def validate(trace_module: str, traces: list, name: str, cfg_text: str = None, shards: int = 16,
             timeout: int = 3600, env_extra=None, keep=False):
    """Validate traces (list of dicts) against spec/<trace_module>.tla.

    Each trace gets the 1-based position in `traces` as its tid.  Returns
    (accepted: set of 0-based indices, info: {idx: text}, stats).
    """
    if cfg_text is None:
        cfg_text = "SPECIFICATION TraceSpec\nCHECK_DEADLOCK FALSE\n"
    wd = workdir("tv_" + name)
    n = len(traces)
    if n == 0:
        return set(), {}, {"generated": 0, "distinct": 0, "wall": 0.0}
    # JVM warm-up dominates short runs (measured: 1 JVM validates 39k traces in 7.5 s, 16 concurrent
    # JVMs need 20 s for the same work), so shards are large and few
    shards = max(1, min(shards, 8, n // 10000 + 1))
    size = (n + shards - 1) // shards
    if size > 40000:
        # (TLC's JSON reader needs tens of bytes of heap per byte of input: 125k traces in one shard exhausted it)
        size = 40000
        shards = (n + size - 1) // size
    jobs = []
    for s in range(shards):
        part = traces[s * size:(s + 1) * size]
        if part:
            jobs.append((s, s * size, part))
    t0 = time.time()
    accepted, info = set(), {}
    gen = dist = 0
    with ThreadPoolExecutor(max_workers=min(8, len(jobs))) as ex:
        futs = [ex.submit(_validate_shard, trace_module, cfg_text, wd, s, part, timeout, env_extra)
                for s, _, part in jobs]
        for (s, off, part), f in zip(jobs, futs):
            acc, inf, summ = f.result()
            accepted |= {off + t - 1 for t in acc}
            info.update({off + t - 1: v for t, v in inf.items()})
            gen += summ["generated"]
            dist += summ["distinct"]
    if not keep:
        for f in wd.glob("shard*.json"):
            f.unlink()
    return accepted, info, {"generated": gen, "distinct": dist, "wall": time.time() - t0}


def tlaps_check(module: str, name: str, timeout: int = 900) -> dict:
    """Run tlapm on spec/proofs/<module>.tla in a scratch copy (fresh fingerprints).  Returns {proved, total, ok, wall}."""
    wd = workdir("tlaps_" + name)
    shutil.copy(SPEC / "proofs" / f"{module}.tla", wd / f"{module}.tla")
    t0 = time.time()
    try:
        p = subprocess.run(["tlapm", "--threads", "4", "--cleanfp", f"{module}.tla"], cwd=str(wd), capture_output=True, text=True, timeout=timeout)
    except (subprocess.TimeoutExpired, FileNotFoundError) as ex:
        raise TLCError(f"tlapm failed to run: {ex}") from ex
    out = p.stdout + p.stderr
    (wd / "out.txt").write_text(out)
    m = re.search(r"All (\d+) obligations? proved", out)
    res = {"module": module, "wall": round(time.time() - t0, 1), "ok": bool(m), "proved": int(m.group(1)) if m else 0}
    if not m:
        f = re.search(r"(\d+)/(\d+) obligations? failed", out)
        res["failed"] = f.group(0) if f else out[-400:]
    shutil.rmtree(wd / ".tlacache", ignore_errors=True)
    return res


def dump_states(module: str, cfg_text: str, name: str, timeout: int = 600) -> list:
    """TLC -dump: every reachable state of spec/<module>.tla under the cfg, as a list of {variable: TLA+ value text}."""
    wd = workdir("dump_" + name)
    cfg = wd / f"{name}.cfg"
    cfg.write_text(cfg_text)
    rc, out = _java(["-workers", "1", "-metadir", str(wd / "meta"), "-noGenerateSpecTE", "-config", str(cfg), "-dump", str(wd / "states"),
                     str(SPEC / f"{module}.tla")], timeout=timeout, cwd=str(SPEC))
    summ = parse_summary(out)
    if summ.get("error") or not summ["completed"]:
        raise TLCError(f"TLC dump failed ({module}): {summ.get('error') or summ.get('violated')}")
    states, cur = [], None
    for line in (wd / "states.dump").read_text().splitlines():
        if line.startswith("State "):
            cur = {}
            states.append(cur)
        elif line.startswith("/\\ ") and cur is not None:
            k, _, v = line[3:].partition(" = ")
            cur[k.strip()] = v.strip()
    shutil.rmtree(wd / "meta", ignore_errors=True)
    try:
        (wd / "states.dump").unlink()          # (hundreds of MB for a million states)
    except OSError:
        pass
    return states


def tla_seq_ints(text: str) -> list:
    """<<1, 2, 3>> or {1, 2} -> [1, 2, 3]"""
    return [int(x) for x in re.findall(r"-?\d+", text)]


def parse_tla(text: str):
    """a TLA+ value as TLC prints it (integers, strings, booleans, <<sequences>>, {sets}, [records], (functions as d :> v @@ ...))
    -> Python (int / str / bool / list / list / dict)."""
    pos = 0
    n = len(text)

    def ws():
        nonlocal pos
        while pos < n and text[pos] in " \n\t":
            pos += 1

    def val():
        nonlocal pos
        ws()
        if text.startswith("<<", pos):
            pos += 2
            out = []
            ws()
            while not text.startswith(">>", pos):
                out.append(val())
                ws()
                if text[pos] == ",":
                    pos += 1
                ws()
            pos += 2
            return out
        if text[pos] == "{":
            pos += 1
            out = []
            ws()
            while text[pos] != "}":
                out.append(val())
                ws()
                if text[pos] == ",":
                    pos += 1
                ws()
            pos += 1
            return out
        if text[pos] == "[":
            pos += 1
            out = {}
            ws()
            while text[pos] != "]":
                m = re.match(r"(\w+)\s*\|->", text[pos:])
                pos += m.end()
                out[m.group(1)] = val()
                ws()
                if text[pos] == ",":
                    pos += 1
                ws()
            pos += 1
            return out
        if text[pos] == '"':
            e = text.index('"', pos + 1)
            r = text[pos + 1:e]
            pos = e + 1
            return r
        m = re.match(r"-?\d+|TRUE|FALSE", text[pos:])
        pos += m.end()
        return {"TRUE": True, "FALSE": False}.get(m.group(0), None) if m.group(0) in ("TRUE", "FALSE") else int(m.group(0))

    return val()
