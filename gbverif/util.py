"""Small shared helpers for drivers."""


def call(fn, *a, **k):
    """Call into the library.  numba's dispatcher has a first-call race between threads
    (ReferenceError 'underlying object has vanished' when two pool threads resolve the same
    first-class-function specialisation at once); it is a JIT artefact unrelated to every listed
    property, disappears on the next call, and is retried here so that it can never surface as
    an outcome."""
    for attempt in range(4):
        try:
            return fn(*a, **k)
        except ReferenceError as ex:
            if "underlying object has vanished" in str(ex) and attempt < 3:
                continue
            raise
