"""Environment for every check: hook guard, numba cache keyed by the source tree, seeds, paths.

Import this module *before* importing groupby_lib.
"""
import hashlib
import os
import shutil
import sys
from pathlib import Path

VERIF = Path(__file__).resolve().parent.parent
REPO = Path(os.environ.get("GBVERIF_REPO", "/repo"))
SPEC = VERIF / "spec"
# (GBVERIF_REPO / GBVERIF_OUT are used only by seedtool.py, to run the checks against a patched scratch copy of the
#  repository without touching /repo or the evidence of the real tree; the registered commands never set them)
OUT = Path(os.environ.get("GBVERIF_OUT", str(VERIF)))
WORK = OUT / "work"
EVIDENCE = OUT / "evidence"
REPLAYS = OUT / "replays"
CACHE = VERIF / ".cache"
GUARD = "GROUPBY_LIB_VERIF"

NULL = -999   # abstract Null in traces (NaN / NaT / int64-min)
JUNK = -998   # a concrete value outside the abstract domain
NONE = -997   # Python None inside a slice


def tree_hash() -> str:
    h = hashlib.sha256()
    for p in sorted((REPO / "groupby_lib").rglob("*.py")):
        h.update(str(p.relative_to(REPO)).encode())
        h.update(p.read_bytes())
    return h.hexdigest()[:20]


def setup(threads: int = 2) -> str:
    """Set the process environment; returns the tree hash."""
    th = tree_hash()
    cache_root = CACHE / "numba"
    cache_dir = cache_root / th
    cache_dir.mkdir(parents=True, exist_ok=True)
    # prune old cache dirs (keep the 6 most recent: concurrent runs on other trees may be using theirs)
    try:
        dirs = sorted((d for d in cache_root.iterdir() if d.is_dir()), key=lambda d: d.stat().st_mtime)
        for d in dirs[:-6]:
            if d != cache_dir:
                shutil.rmtree(d, ignore_errors=True)
    except OSError:
        pass
    os.environ[GUARD] = "1"
    os.environ["NUMBA_CACHE_DIR"] = str(cache_dir)
    os.environ.setdefault("NUMBA_NUM_THREADS", str(threads))
    os.environ.setdefault("NUMBA_THREADING_LAYER", "workqueue")
    os.environ.setdefault("OMP_NUM_THREADS", "1")
    os.environ.setdefault("POLARS_MAX_THREADS", "1")
    os.environ.setdefault("PYTHONHASHSEED", "0")
    if str(REPO) not in sys.path:
        sys.path.insert(0, str(REPO))
    if str(VERIF) not in sys.path:
        sys.path.insert(0, str(VERIF))
    _patch_numba_cache()
    return th


_patched = False
CACHE_READONLY = False


def _patch_numba_cache():
    """numba artefact, unrelated to the library's semantics: functions that take another jitted
    function as an argument (reduce_array_pair, _group_by_reduce, _cumulative_reduce) are declared
    cache=True; when a *second* process adds a specialisation to an on-disk index written by a
    first one, re-pickling the index raises ReferenceError('underlying object has vanished') and the
    call fails although compilation succeeded; and an overload *loaded* from another process' index
    can fail at call time with "can't unbox array from PyObject".  The harness bypasses the on-disk
    cache for exactly those specialisations (they are compiled in-process)."""
    global _patched
    if _patched:
        return
    try:
        from numba.core import caching
    except Exception:
        return
    from numba.core import types as _nbt
    orig_save = caching.Cache.save_overload
    orig_load = caching.Cache.load_overload

    def _takes_function(sig):
        try:
            args = sig.args if hasattr(sig, "args") else sig
            return any(isinstance(a, (_nbt.Dispatcher, _nbt.Function)) for a in args)
        except Exception:
            return False

    def save_overload(self, sig, data):
        # worker processes never write: numba's index update is a read-modify-write without a lock, and two
        # processes saving different specialisations at once can make the index point at the other one's
        # machine code ("can't unbox array from PyObject" on every later load).  Only the (single) parent writes.
        if CACHE_READONLY or _takes_function(sig):
            return None
        try:
            return orig_save(self, sig, data)
        except ReferenceError:
            return None

    def load_overload(self, sig, target_context):
        # an overload unpickled from another process' index refers to a *rebuilt* dispatcher type and
        # then fails at call time ("can't unbox array from PyObject"); compile in-process instead
        if _takes_function(sig):
            return None
        return orig_load(self, sig, target_context)

    caching.Cache.save_overload = save_overload
    caching.Cache.load_overload = load_overload
    _patched = True


def seed() -> int:
    try:
        return int(os.environ.get("VERIF_SEED", "0"))
    except ValueError:
        return 0
