"""Run driver cases against the real library in a fork()ed worker pool.

The parent warms the JIT on *thread-free* cases (so children inherit the compiled kernels), then
forks.  Nothing in the parent may start Python pool threads or numba's threading layer before the
fork (threads do not survive fork(); a child would wait for them forever) -- warm cases are
therefore the single-threaded variants.  A worker that dies (segfault in nopython code) breaks the
pool: the affected chunk is re-run case by case in single-use processes and the culprit is
reported as outcome 'abort'.  A pool that makes no progress for `stall` seconds is a machinery
failure (exit 2), never a VIOLATION.
"""
import multiprocessing as mp
import os
import traceback
from concurrent.futures import FIRST_COMPLETED, ProcessPoolExecutor, wait
from concurrent.futures.process import BrokenProcessPool

_FN = None
_ALLOW_THREADS = False


class RunnerError(RuntimeError):
    pass


_PARENT_PID = os.getpid()


def _run_chunk(args):
    lo, cases = args
    if os.getpid() != _PARENT_PID:
        from . import env as _env
        _env.CACHE_READONLY = True
    out = []
    for c in cases:
        try:
            out.append(_FN(c))
        except Exception as ex:  # harness error, not a library outcome: surfaces as machinery failure
            out.append({"harness_error": f"{type(ex).__name__}: {ex}", "tb": traceback.format_exc()[-1500:], "case": c})
    return lo, out


def _grouped_jobs(cases, group, procs):
    """chunks that never mix groups (a group = one JIT specialisation family, e.g. a value dtype):
    each worker then compiles only what its chunk needs."""
    order = sorted(range(len(cases)), key=lambda i: str(group(cases[i])))
    groups = {}
    for i in order:
        groups.setdefault(str(group(cases[i])), []).append(i)
    total = len(cases)
    target = max(procs, 1)
    jobs = []
    for g, idxs in groups.items():
        k = max(1, round(target * len(idxs) / total))
        size = (len(idxs) + k - 1) // k
        for lo in range(0, len(idxs), size):
            jobs.append(idxs[lo:lo + size])
    jobs.sort(key=len, reverse=True)
    return jobs


def run_cases(fn, cases, warm_cases=(), procs=None, chunk=None, stall=240, group=None):
    """fn(case) -> trace dict (must catch library exceptions itself).  Order preserved."""
    global _FN
    _FN = fn
    cases = list(cases)
    n = len(cases)
    if n == 0:
        return []
    procs = procs or min(16, os.cpu_count() or 1)
    # warm-up runs in the parent, which must stay thread-free: no multi-threaded dispatch (R: rows per
    # thread scaled down) and no chunk-wise factorization in threads (T: threshold scaled down)
    warm_cases = [c for c in warm_cases if not (isinstance(c, dict) and (c.get("R") or c.get("T")))]
    # ... and no polars containers: polars starts a tokio runtime thread lazily, which would not survive the fork either
    warm_cases = [c for c in warm_cases if not (isinstance(c, dict) and any(str(c.get(k)) in ("pl", "plframe") for k in ("vcont", "kcont")))]
    if warm_cases:
        # canary: the warm-up runs library code in *this* process; try it in a forked child first so that a crash
        # in nopython code (e.g. an out-of-bounds write) is an outcome of those cases, not the death of the check
        ctx0 = mp.get_context("fork")
        with ProcessPoolExecutor(max_workers=1, mp_context=ctx0) as ex0:
            try:
                ex0.submit(_run_chunk, (0, warm_cases)).result(timeout=stall)
                canary_ok = True
            except BrokenProcessPool:
                canary_ok = False
        if canary_ok:
            for c in warm_cases:
                try:
                    fn(c)
                except Exception:
                    pass
        else:
            cases = warm_cases + cases      # the culprit is isolated by the normal crash handling below
            n = len(cases)
    if procs == 1:
        return _run_chunk((0, cases))[1]
    try:
        from . import sched
        sched.reset_pool()          # pool threads started by warm-up calls are joined here
    except Exception:
        pass
    import time as _time
    for _attempt in range(100):
        ntasks, comms = 0, []
        for t in os.listdir("/proc/self/task"):
            try:
                comm = open(f"/proc/self/task/{t}/comm").read().strip()
            except OSError:
                continue
            # allocator / polars housekeeping threads exist from import time and are harmless
            if not (comm.startswith("jemalloc") or comm.startswith("polars") or comm.startswith("rayon")):
                ntasks += 1
                comms.append(comm)
        if ntasks <= 1:
            break
        # a joined Python thread (executor shut down above, TLC shard threads) may still be listed by the kernel for a
        # moment on a loaded machine: wait up to 10 s for it to be reaped before calling it a leak
        _time.sleep(0.1)
    if ntasks > 1 and not _ALLOW_THREADS:
        import threading
        names = [t.name for t in threading.enumerate()]
        raise RunnerError(f"parent process has {ntasks} OS threads before fork(): warm-up cases must be thread-free "
                          f"(python threads: {names}; OS threads: {comms})")
    results = [None] * n
    if group is not None:
        idx_jobs = _grouped_jobs(cases, group, procs)
        perm = [i for j in idx_jobs for i in j]
        # run each index job as its own chunk
        jobs, pos = [], 0
        for j in idx_jobs:
            jobs.append((pos, [cases[i] for i in j]))
            pos += len(j)
        out_perm = _run_jobs(jobs, len(perm), procs, stall)
        for k, i in enumerate(perm):
            results[i] = out_perm[k]
        return results
    chunk = chunk or max(20, min(2000, n // (procs * 4)))
    jobs = [(lo, cases[lo:lo + chunk]) for lo in range(0, n, chunk)]
    return _run_jobs(jobs, n, procs, stall)


def _run_jobs(jobs, n, procs, stall):
    # "no progress" is judged per completed job: allow 0.5 s per case of the largest job (grouped jobs hold whole
    # dtype groups, and a worker compiles its kernels first) on top of the base allowance
    stall = max(stall, stall + int(0.5 * max((len(j[1]) for j in jobs), default=0)))
    results = [None] * n
    ctx = mp.get_context("fork")
    failed = []
    ex = ProcessPoolExecutor(max_workers=procs, mp_context=ctx)
    try:
        futs = {ex.submit(_run_chunk, j): j for j in jobs}
        pending = set(futs)
        while pending:
            done, pending = wait(pending, timeout=stall, return_when=FIRST_COMPLETED)
            if not done:
                for p in list(getattr(ex, "_processes", {}).values()):
                    p.kill()
                raise RunnerError(f"worker pool made no progress for {stall}s")
            for f in done:
                j = futs[f]
                try:
                    lo, out = f.result()
                    results[lo:lo + len(out)] = out
                except BrokenProcessPool:
                    failed.append(j)
        ex.shutdown(wait=True)
    except BaseException:
        ex.shutdown(wait=False, cancel_futures=True)
        raise
    n_abort = 0
    for lo, cs in failed:   # isolate the culprit(s); a few are enough to report
        for k, c in enumerate(cs):
            if n_abort >= 3:
                results[lo + k] = {"skipped_after_aborts": True, "case": c}
                continue
            with ProcessPoolExecutor(max_workers=1, mp_context=ctx) as ex1:
                try:
                    _, out = ex1.submit(_run_chunk, (0, [c])).result(timeout=stall)
                    results[lo + k] = out[0]
                except BrokenProcessPool:
                    results[lo + k] = {"abort": True, "case": c}
                    n_abort += 1
    return results
