"""MANIFEST.setup_cmd: nothing to build -- verify the tool chain is present and parse every spec."""
import subprocess
import sys
from pathlib import Path

from . import env


def main():
    env.setup()
    ok = True
    r = subprocess.run(["java", "-version"], capture_output=True, text=True)
    ok &= r.returncode == 0
    for f in sorted((env.SPEC).glob("*.tla")):
        r = subprocess.run(["java", "-cp", "/opt/veriftools/tla/tla2tools.jar:/opt/veriftools/tla/CommunityModules-deps.jar",
                            "tla2sany.SANY", str(f)], capture_output=True, text=True, cwd=str(env.SPEC))
        if r.returncode != 0 or "rror" in r.stdout.replace("Semantic errors", ""):
            if "*** Errors" in r.stdout or r.returncode != 0:
                print("SANY failed on", f.name, r.stdout[-500:])
                ok = False
    import groupby_lib  # noqa
    print("setup ok" if ok else "setup FAILED")
    return 0 if ok else 1


if __name__ == "__main__":
    sys.exit(main())
