"""Drivers for the row-aligned operations: cumulative (C08), rolling / shift / diff (C09), EMA (C10),
head / tail / nth (C15)."""
import numpy as np
import pandas as pd
import polars as pl
import pyarrow as pa

from ..abstract import EMB, to_rat
from ..env import JUNK, NULL
from ..util import call
from . import api


def _keys_obj(case):
    """single key column of ids -> real key array (API level) or codes (numba level)."""
    ids = case["keys"]
    if case.get("level", "api") == "numba":
        return np.array([-1 if i == NULL else i - 1 for i in ids], dtype=np.int64), None
    e = api.key_encoder(case.get("kenc", "f64"))
    return api.wrap_container(e.enc(ids), case.get("kcont", "np")), e


def _values_obj(case, emb):
    arr = emb.enc(case["vals"])
    vc = case.get("vcont", "np")
    if isinstance(vc, (list, tuple)) and vc[0] == "pachunk":
        pos, chunks = 0, []
        for l in vc[1]:
            chunks.append(pa.array(arr[pos:pos + l]))
            pos += l
        return pa.chunked_array(chunks, type=chunks[0].type)
    return api.wrap_container(arr, vc, index=case.get("index"))


def _mask_obj(case):
    m = case.get("mask", {"k": "none"})
    if m["k"] == "none":
        return None
    a = np.array(m["b"], dtype=bool)
    return pd.Series(a) if case.get("mcont") == "series" else a


def _sel(case):
    m = case.get("mask", {"k": "none"})
    return [1] * len(case["keys"]) if m["k"] == "none" else [int(b) for b in m["b"]]


def _ngroups(case):
    ids = [i for i in case["keys"] if i != NULL]
    return max(ids) if ids else 0


def _out_array(out):
    if isinstance(out, pl.Series):
        return out.to_numpy()
    if isinstance(out, (pd.Series, pd.Index)):
        return out.to_numpy()
    if isinstance(out, pd.DataFrame):
        return out.iloc[:, 0].to_numpy()
    return np.asarray(out)


def base_trace(case, emb):
    tr = {k: case[k] for k in ("op", "keys", "vals") if k in case}
    tr["sel"] = _sel(case)
    tr["emb"] = case.get("emb")
    tr["nonull"] = int(emb.nonull) if emb is not None else 0
    tr["cfg"] = {k: case.get(k) for k in ("level", "kenc", "kcont", "vcont", "mcont", "T", "skipna", "window", "minp", "layout")}
    tr["mask"] = case.get("mask", {"k": "none"})
    return tr


# ------------------------------------------------------------------------------------------ C08
def run_cum(case):
    from groupby_lib import GroupBy
    from groupby_lib.groupby import numba as nbf
    emb = EMB[case["emb"]]
    api.set_config(case)
    op = case["op"]                      # cumsum | cumsum_na | cummin | cummax | cumcount
    fn = "cumsum" if op == "cumsum_na" else op
    tr = base_trace(case, emb)
    keyobj, _ = _keys_obj(case)
    values = _values_obj(case, emb)
    mask = _mask_obj(case)
    kw = {}
    if fn != "cumcount":
        kw["skip_na"] = (op != "cumsum_na")
    try:
        if case.get("level", "api") == "numba":
            f = getattr(nbf, fn)
            out = call(f, keyobj, values if fn != "cumcount" else None, _ngroups(case), mask, **kw) if fn != "cumcount" \
                else call(f, keyobj, None, _ngroups(case), mask)
        else:
            gb = call(GroupBy, keyobj)
            out = call(gb.cumcount, mask=mask) if fn == "cumcount" else call(getattr(gb, fn), values, mask=mask, **kw)
    except Exception as ex:
        tr.update(out="raise", exc=type(ex).__name__, msg=str(ex)[:160], res=[])
        return tr
    tr["out"] = "ok"
    a = _out_array(out)
    tr["rdtype"] = str(a.dtype)
    if fn == "cumcount":
        tr["res"] = [int(x) if x == x else NULL for x in a.tolist()]
    elif fn == "cumsum":
        his, los = emb.dec_sum(a)
        tr["res"] = los
        if emb.base != 0:
            tr["hi"] = [h if h is not None else 0 for h in his]
    else:
        tr["res"] = emb.dec_arr(a)
    return tr


# ------------------------------------------------------------------------------------------ C09
_ROLL_FN = {"sum": "rolling_sum", "mean": "rolling_mean", "min": "rolling_min", "max": "rolling_max"}


def run_roll(case):
    """case: op in sum/mean/min/max/shift/diff, W, minp, keys, vals, emb, mask, level, layout."""
    from groupby_lib import GroupBy
    from groupby_lib.groupby import numba as nbf
    emb = EMB[case["emb"]]
    api.set_config(case)
    op, W, minp = case["op"], case["W"], case["minp"]
    tr = base_trace(case, emb)
    tr.update(W=W, minp=minp)
    keyobj, kenc = _keys_obj(case)
    values = _values_obj(case, emb)
    mask = _mask_obj(case)
    n = len(case["keys"])
    bygroup = case.get("layout") == "bygroup"
    try:
        if case.get("level", "api") == "numba":
            if op in _ROLL_FN:
                out = call(getattr(nbf, _ROLL_FN[op]), keyobj, values, _ngroups(case), W, minp, mask)
            else:
                out = call(getattr(nbf, "rolling_" + op), keyobj, values, _ngroups(case), W, mask)
        else:
            gb = call(GroupBy, keyobj)
            if op in _ROLL_FN:
                out = call(getattr(gb, _ROLL_FN[op]), values, window=W, min_periods=minp, mask=mask, index_by_groups=bygroup)
            else:
                out = call(getattr(gb, op), values, window=W, mask=mask)
    except Exception as ex:
        tr.update(out="raise", exc=type(ex).__name__, msg=str(ex)[:160], res=[])
        return tr
    tr["out"] = "ok"
    if bygroup:
        # (group label, original position) index, sorted by label then position; map back to row order
        idx = out.index
        a_sorted = _out_array(out)
        pos = [int(t[-1]) for t in idx.tolist()]
        labs = [kenc.dec(t[0]) for t in idx.tolist()]
        order_ok = all((labs[j], pos[j]) <= (labs[j + 1], pos[j + 1]) for j in range(len(pos) - 1))
        rows_ok = all(0 <= p < n and case["keys"][p] == l for p, l in zip(pos, labs))
        tr["layout_ok"] = int(order_ok and rows_ok and len(set(pos)) == len(pos))
        a = np.full(n, np.nan, dtype=float) if a_sorted.dtype.kind == "f" else np.full(n, a_sorted[0] if len(a_sorted) else 0, dtype=a_sorted.dtype)
        seen = set()
        for p, x in zip(pos, a_sorted):
            if 0 <= p < n:
                a[p] = x
                seen.add(p)
        # rows that the group-sorted layout drops (null key / unselected) are unjudged
    else:
        a = _out_array(out)
    tr["rdtype"] = str(a.dtype)
    if emb.kind in "mM" and a.dtype.kind in "mM":
        unit = np.datetime_data(emb.dtype)[0]
        want = np.dtype(f"m8[{unit}]") if op == "diff" else emb.dtype
        if a.dtype != want:
            with np.errstate(all="ignore"):
                a = a.astype(want)      # a wrong unit shows up as a wrong value
    if op == "mean":
        if a.dtype.kind in "mM":
            tr["res"] = [[x, 1] if x != NULL else [NULL, 1] for x in emb.dec_arr(a)]
        else:
            tr["res"] = [to_rat((x - emb.base) if x == x else x) for x in a.astype(float).tolist()]
    elif op == "sum":
        his, los = emb.dec_sum(a)
        tr["res"] = los
    elif op == "diff":
        tr["res"] = emb.dec_arr(a, base_mult=0)
    else:
        tr["res"] = emb.dec_arr(a)
    if bygroup:
        junk = [JUNK, 1] if op == "mean" else JUNK
        tr["res"] = [r if j in seen else junk for j, r in enumerate(tr["res"])]
    return tr
