"""Drivers for the row-aligned operations: cumulative (C08), rolling / shift / diff (C09), EMA (C10),
head / tail / nth (C15)."""
import numpy as np
import pandas as pd
import polars as pl
import pyarrow as pa

from ..abstract import EMB, dtdesc, to_rat
from ..env import JUNK, NULL
from ..util import call
from . import api


def _keys_obj(case):
    """single key column of ids -> real key array (API level) or codes (numba level)."""
    ids = case["keys"]
    if case.get("level", "api") == "numba":
        return np.array([-1 if i == NULL else i - 1 for i in ids], dtype=np.int64), None
    e = api.key_encoder(case.get("kenc", "f64"))
    return api.wrap_container(e.enc(ids), case.get("kcont", "np")), e


def _values_obj(case, emb):
    arr = emb.enc(case["vals"])
    vc = case.get("vcont", "np")
    if isinstance(vc, (list, tuple)) and vc[0] == "pachunk":
        pos, chunks = 0, []
        for l in vc[1]:
            chunks.append(pa.array(arr[pos:pos + l]))
            pos += l
        return pa.chunked_array(chunks, type=chunks[0].type)
    return api.wrap_container(arr, vc, index=case.get("index"))


def _mask_obj(case):
    m = case.get("mask", {"k": "none"})
    if m["k"] == "none":
        return None
    a = np.array(m["b"], dtype=bool)
    return pd.Series(a) if case.get("mcont") == "series" else a


def _sel(case):
    m = case.get("mask", {"k": "none"})
    return [1] * len(case["keys"]) if m["k"] == "none" else [int(b) for b in m["b"]]


def _ngroups(case):
    ids = [i for i in case["keys"] if i != NULL]
    return max(ids) if ids else 0


def _out_array(out):
    if isinstance(out, pl.Series):
        return api.pl_to_numpy(out)
    if isinstance(out, (pd.Series, pd.Index)):
        return api.pd_to_numpy(out)
    if isinstance(out, pd.DataFrame):
        return api.pd_to_numpy(out.iloc[:, 0])
    if isinstance(out, pl.DataFrame):
        return api.pl_to_numpy(out.to_series(0))
    a = np.asarray(out)
    return a[:, 0] if a.ndim == 2 and a.shape[1] == 1 else a


def base_trace(case, emb):
    tr = {k: case[k] for k in ("op", "keys", "vals") if k in case}
    tr["sel"] = _sel(case)
    tr["emb"] = case.get("emb")
    tr["nonull"] = int(emb.nonull) if emb is not None else 0
    tr["cfg"] = {k: case.get(k) for k in ("level", "kenc", "kcont", "vcont", "mcont", "T", "skipna", "window", "minp", "layout", "nanull")}
    tr["mask"] = case.get("mask", {"k": "none"})
    return tr


# ------------------------------------------------------------------------------------------ C08
def run_cum(case):
    from groupby_lib import GroupBy
    from groupby_lib.groupby import numba as nbf
    emb = EMB[case["emb"]]
    api.set_config(case)
    op = case["op"]                      # cumsum | cumsum_na | cummin | cummax | cumcount
    fn = "cumsum" if op == "cumsum_na" else op
    tr = base_trace(case, emb)
    if case.get("long"):
        tr["long"] = 1
    keyobj, _ = _keys_obj(case)
    values = _values_obj(case, emb)
    mask = _mask_obj(case)
    kw = {}
    if fn != "cumcount":
        kw["skip_na"] = (op != "cumsum_na")
    try:
        if case.get("level", "api") == "numba":
            f = getattr(nbf, fn)
            out = call(f, keyobj, values if fn != "cumcount" else None, _ngroups(case), mask, **kw) if fn != "cumcount" \
                else call(f, keyobj, None, _ngroups(case), mask)
        else:
            gb = call(GroupBy, keyobj)
            out = call(gb.cumcount, mask=mask) if fn == "cumcount" else call(getattr(gb, fn), values, mask=mask, **kw)
    except Exception as ex:
        tr.update(out="raise", exc=type(ex).__name__, msg=str(ex)[:160], res=[])
        return tr
    tr["out"] = "ok"
    tr["idt"], tr["odt"] = dtdesc(values), dtdesc(out)
    a = _out_array(out)
    tr["rdtype"] = str(a.dtype)
    if fn == "cumcount":
        tr["res"] = [int(x) if x == x else NULL for x in a.tolist()]
    elif fn == "cumsum":
        his, los = emb.dec_sum(a)
        tr["res"] = los
        if emb.base != 0:
            tr["hi"] = [h if h is not None else 0 for h in his]
    else:
        tr["res"] = emb.dec_arr(a)
    return tr


# ------------------------------------------------------------------------------------------ C09
_ROLL_FN = {"sum": "rolling_sum", "mean": "rolling_mean", "min": "rolling_min", "max": "rolling_max"}


def run_roll(case):
    """case: op in sum/mean/min/max/shift/diff, W, minp, keys, vals, emb, mask, level, layout."""
    from groupby_lib import GroupBy
    from groupby_lib.groupby import numba as nbf
    emb = EMB[case["emb"]]
    api.set_config(case)
    op, W, minp = case["op"], case["W"], case["minp"]
    tr = base_trace(case, emb)
    tr.update(W=W, minp=minp)
    if case.get("long"):
        tr["long"] = 1
        if case.get("period"):
            tr["period"] = case["period"]
    keyobj, kenc = _keys_obj(case)
    values = _values_obj(case, emb)
    mask = _mask_obj(case)
    n = len(case["keys"])
    bygroup = case.get("layout") == "bygroup"
    try:
        if case.get("level", "api") == "numba":
            if op in _ROLL_FN:
                out = call(getattr(nbf, _ROLL_FN[op]), keyobj, values, _ngroups(case), W, minp, mask)
            else:
                out = call(getattr(nbf, "rolling_" + op), keyobj, values, _ngroups(case), W, mask)
        else:
            gb = call(GroupBy, keyobj)
            if op in _ROLL_FN:
                out = call(getattr(gb, _ROLL_FN[op]), values, window=W, min_periods=minp, mask=mask, index_by_groups=bygroup)
            else:
                out = call(getattr(gb, op), values, window=W, mask=mask)
    except Exception as ex:
        tr.update(out="raise", exc=type(ex).__name__, msg=str(ex)[:160], res=[])
        return tr
    tr["out"] = "ok"
    tr["idt"], tr["odt"] = dtdesc(values), dtdesc(out)
    if bygroup:
        # (group label, original position) index, sorted by label then position; map back to row order
        idx = out.index
        a_sorted = _out_array(out)
        pos = [int(t[-1]) for t in idx.tolist()]
        labs = [kenc.dec(t[0]) for t in idx.tolist()]
        order_ok = all((labs[j], pos[j]) <= (labs[j + 1], pos[j + 1]) for j in range(len(pos) - 1))
        rows_ok = all(0 <= p < n and case["keys"][p] == l for p, l in zip(pos, labs))
        tr["layout_ok"] = int(order_ok and rows_ok and len(set(pos)) == len(pos))
        a = np.full(n, np.nan, dtype=float) if a_sorted.dtype.kind == "f" else np.full(n, a_sorted[0] if len(a_sorted) else 0, dtype=a_sorted.dtype)
        seen = set()
        for p, x in zip(pos, a_sorted):
            if 0 <= p < n:
                a[p] = x
                seen.add(p)
        # rows that the group-sorted layout drops (null key / unselected) are unjudged
    else:
        a = _out_array(out)
    tr["rdtype"] = str(a.dtype)
    if emb.kind in "mM" and a.dtype.kind in "mM":
        unit = np.datetime_data(emb.dtype)[0]
        want = np.dtype(f"m8[{unit}]") if op == "diff" else emb.dtype
        if a.dtype != want:
            with np.errstate(all="ignore"):
                a = a.astype(want)      # a wrong unit shows up as a wrong value
    if op == "mean":
        if a.dtype.kind in "mM":
            tr["res"] = [[x, 1] if x != NULL else [NULL, 1] for x in emb.dec_arr(a)]
        else:
            tr["res"] = [to_rat((x - emb.base) if x == x else x) for x in a.astype(float).tolist()]
    elif op == "sum":
        his, los = emb.dec_sum(a)
        tr["res"] = los
    elif op == "diff":
        tr["res"] = emb.dec_arr(a, base_mult=0)
    else:
        tr["res"] = emb.dec_arr(a)
    if bygroup:
        junk = [JUNK, 1] if op == "mean" else JUNK
        tr["res"] = [r if j in seen else junk for j, r in enumerate(tr["res"])]
    return tr


# ------------------------------------------------------------------------------------------ C10
import math

BETAS = {"0": (0, 1), "1/4": (1, 4), "1/2": (1, 2), "3/4": (3, 4)}


def _times_obj(case):
    """abstract integer times (units of the halflife = 1 s) -> real timestamps."""
    unit = case.get("tunit", "ns")
    base = case.get("tbase", "2024-01-01")
    t0 = np.datetime64(base, "s")
    arr = np.array([t0 + np.timedelta64(int(t), "s") for t in case["times"]], dtype="datetime64[s]").astype(f"datetime64[{unit}]")
    tc = case.get("tcont", "np")
    if tc == "index":
        return pd.DatetimeIndex(arr)
    if tc == "series":
        return pd.Series(arr)
    if tc == "tz":
        return pd.DatetimeIndex(arr).tz_localize("UTC").tz_convert("US/Eastern")
    return arr


def run_ema(case):
    """case: entry in ema|ema_grouped|gb, param in alpha|halflife|timed, beta key, keys, vals, emb, mask, times."""
    from groupby_lib import GroupBy, ema, ema_grouped
    emb = EMB[case["emb"]]
    api.set_config(case)
    bn, bd = BETAS[case["beta"]]
    tr = base_trace(case, emb)
    tr.update(op="ema", timed=int(case["param"] == "timed"), beta=[bn, bd], times=case.get("times") or list(range(len(case["keys"]))))
    tr["cfg"].update(entry=case["entry"], param=case["param"], tunit=case.get("tunit"), tcont=case.get("tcont"), tbase=case.get("tbase"))
    n = len(case["keys"])
    kw = {}
    if case["param"] == "alpha":
        kw["alpha"] = 1 - bn / bd
    elif case["param"] == "halflife":
        kw["halflife"] = -math.log(2) / math.log(bn / bd)
    else:
        kw["halflife"] = case.get("hl", "1s")
        kw["times"] = _times_obj(case)
    values = _values_obj(case, emb)
    mask = _mask_obj(case)
    entry = case["entry"]
    bygroup = case.get("layout") == "bygroup"
    try:
        if entry == "ema":
            out = call(ema, values, **kw)
        elif entry == "ema_grouped":
            codes = np.array([-1 if i == NULL else i - 1 for i in case["keys"]], dtype=np.int64)
            out = call(ema_grouped, codes, _ngroups(case), values, mask=mask, **kw)
        else:
            keyobj, kenc = _keys_obj(case)
            gb = call(GroupBy, keyobj)
            out = call(gb.ema, values, mask=mask, index_by_groups=bygroup, **kw)
    except Exception as ex:
        tr.update(out="raise", exc=type(ex).__name__, msg=str(ex)[:160], res=[])
        return tr
    tr["out"] = "ok"
    if bygroup:
        idx = out.index
        a_sorted = _out_array(out)
        pos = [int(t[-1]) for t in idx.tolist()]
        labs = [kenc.dec(t[0]) for t in idx.tolist()]
        order_ok = all((labs[j], pos[j]) <= (labs[j + 1], pos[j + 1]) for j in range(len(pos) - 1))
        rows_ok = all(0 <= p < n and case["keys"][p] == l for p, l in zip(pos, labs))
        want = sorted(p for p in range(n) if case["keys"][p] != NULL)
        tr["layout_ok"] = int(order_ok and rows_ok and sorted(pos) == want)
        a = np.full(n, np.nan)
        for p, x in zip(pos, a_sorted):
            if 0 <= p < n:
                a[p] = x
    else:
        a = _out_array(out).astype(float)
    tr["res"] = [to_rat(x, max_den=2 ** 22) for x in a.tolist()]
    if entry == "ema":
        # the ungrouped kernel is judged from the first valid observation on
        first = next((j for j, v in enumerate(case["vals"]) if v != NULL), n)
        tr["from"] = first + 1
    return tr


# ------------------------------------------------------------------------------------------ C15
def run_select(case):
    """case: kind head|tail|nth, n, keys (ids) or runs [[g, len], ...], idx (labels), ncols, kenc, vdtype."""
    from groupby_lib import GroupBy
    api.set_config(case)
    rle = "runs" in case
    if rle:
        ids = []
        for g, l in case["runs"]:
            ids.extend([g] * l)
    else:
        ids = list(case["keys"])
    n_rows = len(ids)
    kenc = api.key_encoder(case.get("kenc", "f64"))
    keyarr = kenc.enc(ids)
    idx = case.get("idx") or list(range(n_rows))
    vdt = case.get("vdtype", "float64")
    ncols = case.get("ncols", 1)
    index = pd.Index(idx)
    if case.get("rangeidx") and n_rows > 0:       # a genuine RangeIndex (start, step), e.g. a slice of a longer frame
        st, sp = case["rangeidx"]
        rix = pd.RangeIndex(st, st + sp * n_rows, sp)
        if list(rix) == [int(x) for x in idx]:      # (a caller that deleted rows keeps `idx` only: then it is no range any more)
            index = rix
    temporal = np.dtype(vdt).kind in "mM"
    cols = {f"c{j}": (np.arange(n_rows, dtype=np.int64) + (1000003 * j if vdt != "float32" else 0)).astype(vdt) for j in range(ncols)}
    values = pd.Series(cols["c0"], index=index, name="c0") if ncols == 1 else pd.DataFrame(cols, index=index)
    if case.get("vcont") and ncols == 1:
        values = api.wrap_container(cols["c0"], case["vcont"], name="c0", index=index)
    keys = pd.Series(keyarr, index=index) if case.get("kcont", "series") == "series" else keyarr
    tr = {"kind": case["kind"], "n": case["n"], "cfg": {k: case.get(k) for k in ("kenc", "ncols", "vdtype", "T", "kcont", "vcont", "keep", "sort")}}
    if rle:
        tr["runs"] = case["runs"]
    else:
        tr["keys"], tr["idx"] = ids, [int(x) for x in idx]
    try:
        keep = bool(case.get("keep", 1))
        gb = call(GroupBy, keys, sort=bool(case.get("sort", 1)))
        out = call(getattr(gb, case["kind"]), values, case["n"], keep_input_index=keep)
    except Exception as ex:
        tr.update(out="raise", exc=type(ex).__name__, msg=str(ex)[:160], rows=[], ridx=[])
        return tr
    tr["out"] = "ok"
    tr["idt"], tr["odt"] = dtdesc(values), dtdesc(out)
    if temporal or case.get("vcont"):
        a = _out_array(out)
        if a.dtype == object:          # time zone aware values come back as Timestamps
            a = np.array([pd.Timestamp(x).tz_convert("UTC").tz_localize(None).to_datetime64() if x is not pd.NaT else np.datetime64("NaT") for x in a]).astype(vdt) if len(a) else a
        if a.dtype.kind in "mM":
            a = a.astype(vdt).view(np.int64) if a.dtype.kind in "mM" else a
        ok = True
    elif isinstance(out, pd.DataFrame):
        a = out.iloc[:, 0].to_numpy()
        off = 0 if vdt == "float32" else 1000003
        ok = all(np.array_equal(out.iloc[:, j].to_numpy() - off * j, a) for j in range(out.shape[1])) and out.shape[1] == ncols
    else:
        a = out.to_numpy()
        ok = True
    rows = [int(x) if float(x) == int(x) else JUNK for x in a.tolist()]
    if not ok:
        rows = [JUNK] * len(rows)      # columns disagree: values were modified
    tr["rows"] = rows
    if not rle and not case.get("keep", 1):
        # rows listed group by group: (group label[, position within the selection])
        tr["sort"] = int(case.get("sort", 1))
        lab, pos = [], []
        for t_ in out.index.tolist():
            t_ = t_ if isinstance(t_, tuple) else (t_,)
            lab.append(kenc.dec(t_[0]))
            pos.append(int(t_[1]) if len(t_) > 1 else -1)
        tr["glabels"], tr["gpos"] = lab, pos
    elif not rle:
        tr["ridx"] = [int(x) for x in out.index.tolist()]
    return tr


# ------------------------------------------------------------------------------------------ growth: group_nearby_members
def run_nearby(case):
    """case: keys (ids), vals (small ints, monotone or not), maxdiff, kenc, kcont, vdt, T, level, pre (ops called before)."""
    from groupby_lib import GroupBy
    from groupby_lib.groupby import numba as nbf
    api.set_config(case)
    ids = case["keys"]
    tr = {"keys": ids, "vals": case["vals"], "maxdiff": case["maxdiff"],
          "cfg": {k: case.get(k) for k in ("kenc", "kcont", "vdt", "T", "level", "pre")}}
    vals = np.array(case["vals"], dtype=case.get("vdt", "float64"))
    try:
        if case.get("level") == "numba":
            codes = np.array([-1 if i == NULL else i - 1 for i in ids], dtype=np.int64)
            out = call(nbf.group_nearby_members, codes, vals, case["maxdiff"], max([i for i in ids if i != NULL] or [0]))
        else:
            e = api.key_encoder(case.get("kenc", "f64"))
            gb = call(GroupBy, api.wrap_container(e.enc(ids), case.get("kcont", "np")))
            for pre in case.get("pre") or []:
                if pre == "groups":
                    gb.groups
                elif pre == "cumsum":
                    call(gb.cumsum, vals.astype(float))
                elif pre == "sum":
                    call(gb.sum, vals.astype(float))
            out = call(gb.group_nearby_members, vals, case["maxdiff"])
    except Exception as ex:
        tr.update(out="raise", exc=type(ex).__name__, msg=str(ex)[:160], res=[])
        return tr
    tr["out"] = "ok"
    tr["res"] = [int(x) for x in np.asarray(out).tolist()]
    return tr


def run_find_n(case):
    """numba.find_first_n / find_last_n: case = fn first|last, codes (0-based, -1 = null key), ngroups, n, sel (bits) or None."""
    from groupby_lib.groupby import numba as nbf
    codes = np.array(case["codes"], dtype=np.int64)
    sel = case.get("sel")
    mask = None if sel is None else np.array(sel, dtype=bool)
    tr = {"kmode": 1, "kind": "head" if case["fn"] == "first" else "tail", "n": case["n"], "ngroups": case["ngroups"],
          "keys": [NULL if c < 0 else c + 1 for c in case["codes"]], "sel": list(sel) if sel is not None else [1] * len(codes), "mat": []}
    try:
        f = nbf.find_first_n if case["fn"] == "first" else nbf.find_last_n
        out = call(f, codes, case["ngroups"], case["n"], mask)
        tr["out"] = "ok"
        tr["mat"] = [[int(x) for x in row] for row in np.asarray(out).tolist()]
    except Exception as ex:
        tr.update(out="raise", exc=type(ex).__name__, msg=str(ex)[:160])
    return tr
