"""Driver for C14: margins and crosstab."""
import numpy as np
import pandas as pd

from ..abstract import EMB, to_rat
from ..env import JUNK, NULL
from ..util import call
from . import api

ALL = 0


def _dec_label(encs, tup):
    out = []
    for e, x in zip(encs, tup):
        out.append(ALL if isinstance(x, str) and x == "All" else e.dec(x))
    return out


def _val(op, x):
    if op == "mean":
        return to_rat(x)
    if x is None or (isinstance(x, float) and x != x):
        return NULL
    return int(x) if float(x) == int(x) else JUNK


def _build(case):
    encs = [api.key_encoder(k) for k in case["kenc"]]
    cols = [e.enc([r[j] for r in case["keys"]]) for j, e in enumerate(encs)]
    vals = np.array([np.nan if v == NULL else float(v) for v in case["vals"]])
    if case.get("emb"):
        vals = EMB[case["emb"]].enc(case["vals"])       # integers at 2^53: a detour through float64 loses the value
    mask = None if all(case["sel"]) and not case.get("force_mask") else np.array(case["sel"], dtype=bool)
    return encs, cols, vals, mask


def run_margins(case):
    from groupby_lib import GroupBy
    api.set_config(case)
    encs, cols, vals, mask = _build(case)
    op = case["op"]
    nk = len(encs)
    levels = case["levels"]           # 1-based requested levels
    margins = True if sorted(levels) == list(range(1, nk + 1)) and not case.get("explicit") else [l - 1 for l in levels]
    tr = {"kind": "margins", "op": op, "keys": case["keys"], "vals": case["vals"], "sel": case["sel"], "levels": levels,
          "cfg": {"kenc": case["kenc"], "explicit": case.get("explicit"), "T": case.get("T")}}
    try:
        gb = call(GroupBy, cols[0] if nk == 1 else cols)
        out = call(gb.size, mask=mask, margins=margins) if op == "size" else call(getattr(gb, op), vals, mask=mask, margins=margins)
    except Exception as ex:
        tr.update(out="raise", exc=type(ex).__name__, msg=str(ex)[:160], labels=[], res=[])
        return tr
    tr["out"] = "ok"
    idx = out.index
    tups = idx.tolist() if isinstance(idx, pd.MultiIndex) else [(x,) for x in idx.tolist()]
    tr["labels"] = [_dec_label(encs, t) for t in tups]
    if case.get("emb") and op in ("sum", "min", "max"):
        emb = EMB[case["emb"]]
        arr = out.to_numpy()
        tr["res"] = emb.dec_sum(arr)[1] if op == "sum" else emb.dec_arr(arr)
        tr["cfg"]["emb"] = case["emb"]
        tr["cfg"]["rdtype"] = str(arr.dtype)
    else:
        tr["res"] = [_val(op, x) for x in np.asarray(out, dtype=float).tolist()]
    return tr


def run_crosstab(case):
    from groupby_lib.groupby.core import crosstab
    api.set_config(case)
    encs, cols, vals, mask = _build(case)
    op, nrow = case["op"], case["nrow"]
    nk = len(encs)
    marg = case["margins"]            # False | True | "row" | "column"
    tr = {"kind": "crosstab", "op": op, "keys": case["keys"], "vals": case["vals"], "sel": case["sel"], "nrow": nrow,
          "cfg": {"kenc": case["kenc"], "margins": str(marg)}}
    index = cols[:nrow] if nrow > 1 else cols[0]
    columns = cols[nrow:] if nk - nrow > 1 else cols[nrow]
    try:
        table = call(crosstab, index, columns, None if op == "size" else vals, aggfunc=("sum" if op == "size" else op), mask=mask, margins=marg)
    except Exception as ex:
        tr.update(out="raise", exc=type(ex).__name__, msg=str(ex)[:160], cells=[], must=[])
        return tr
    tr["out"] = "ok"
    cells = []
    rlabs = table.index.tolist() if isinstance(table.index, pd.MultiIndex) else [(x,) for x in table.index.tolist()]
    clabs = table.columns.tolist() if isinstance(table.columns, pd.MultiIndex) else [(x,) for x in table.columns.tolist()]
    a = np.asarray(table, dtype=float)
    for i, rl in enumerate(rlabs):
        for j, cl in enumerate(clabs):
            lab = _dec_label(encs[:nrow], rl) + _dec_label(encs[nrow:], cl)
            cells.append([lab, _val(op, a[i, j])])
    tr["cells"] = cells
    must = []
    anysel = any(s and NULL not in k for s, k in zip(case["sel"], case["keys"]))
    if anysel:
        if marg in (True, "row"):
            pass
        # the grand total must be present when both margins are requested
        if marg is True:
            must.append([ALL] * nk)
    tr["must"] = must
    return tr
