"""Driver for the array-level kernels groupby_lib.groupby.numba.group_* (C04, kernel part of C03)."""
import numpy as np
import pyarrow as pa

from ..abstract import EMB, to_rat
from ..domains import array_split_sizes, mask_selection, py_slice
from ..env import NULL
from ..util import call

NG = 3
OPS = ["size", "count", "sum", "sumsq", "mean", "min", "max", "first", "last"]
_FN = {"size": "group_size", "count": "group_count", "sum": "group_sum", "sumsq": "group_sum_squares",
       "mean": "group_mean", "min": "group_min", "max": "group_max", "first": "group_first", "last": "group_last"}


def supported(op, emb):
    e = EMB[emb]
    if op in ("sumsq", "mean") and (e.base != 0 or e.kind in "mM"):
        return False          # float detour is inherent to these two; judged on small values only
    if op == "sumsq" and e.kind in "bu":
        return False
    if emb.endswith("lo") and op in ("sum", "sumsq", "mean"):
        return False          # bottom-of-range embeddings: selection-type kernels and counts only
    return True


def build_mask(m, n):
    k = m["k"]
    if k == "none":
        return None
    if k == "bool":
        return np.array(m["b"], dtype=bool)
    if k == "slice":
        return py_slice(m)
    if k == "pos":
        return np.array(m["p"], dtype=np.int64)
    raise ValueError(k)


def blocks_for(case, n):
    try:
        sel = mask_selection(n, case["mask"])
    except Exception:
        return [0]
    L = len(sel)
    kind, arg = case["split"]
    if kind == "t":
        return array_split_sizes(L, arg) if arg > 1 else [L]
    # chunked values
    mk = case["mask"]["k"]
    if mk == "none":
        return list(arg)
    if mk == "bool":
        out, pos = [], 0
        b = case["mask"]["b"]
        for l in arg:
            out.append(sum(b[pos:pos + l]))
            pos += l
        return out
    return [L]


def run_case(case):
    from groupby_lib.groupby import numba as nbf
    op, codes, vals, emb = case["op"], case["codes"], case["vals"], EMB[case["emb"]]
    n = len(codes)
    key = np.array(codes, dtype=np.int64)
    arr = emb.enc(vals)
    kind, arg = case["split"]
    n_threads = arg if kind == "t" else 1
    if kind == "c":
        pos, chunks = 0, []
        for l in arg:
            chunks.append(pa.array(arr[pos:pos + l]))
            pos += l
        values = pa.chunked_array(chunks, type=chunks[0].type)
    else:
        values = arr
    mask = build_mask(case["mask"], n)
    tr = {"op": op, "codes": codes, "vals": vals, "mask": case["mask"], "blocks": blocks_for(case, n),
          "nonull": int(emb.nonull), "emb": case["emb"], "split": [kind, list(arg) if kind == "c" else arg]}
    fn = getattr(nbf, _FN[op])
    try:
        if op == "size":
            r = call(fn, key, NG, mask=mask, n_threads=n_threads)
        else:
            r = call(fn, key, values, NG, mask=mask, n_threads=n_threads)
    except Exception as ex:
        tr["out"] = "raise"
        tr["exc"] = type(ex).__name__
        tr["msg"] = str(ex)[:200]
        tr["res"] = []
        return tr
    tr["out"] = "ok"
    r = np.asarray(r)
    if op in ("size", "count"):
        if r.dtype.kind in "mM":      # counts of temporal values come back viewed as that dtype
            r = r.view(np.int64)
        tr["res"] = [int(x) for x in r.tolist()]
    elif op == "sum":
        his, los = emb.dec_sum(r)
        tr["res"] = los
        if emb.base != 0:
            tr["reshi"] = his
    elif op == "sumsq":
        tr["res"] = emb.dec_arr(r)
    elif op == "mean":
        tr["res"] = [to_rat(x) for x in r.astype(float).tolist()]
    else:
        tr["res"] = emb.dec_arr(r)
    tr["rdtype"] = str(r.dtype)
    return tr
