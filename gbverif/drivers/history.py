"""Driver for C13: operation histories on one GroupBy object, each call compared with a fresh object."""
import random

import numpy as np
import pandas as pd

from ..env import NULL
from ..util import call
from . import api


class _Raised:
    def __init__(self, ex):
        self.kind = type(ex).__name__


def _equal(a, b):
    if isinstance(a, _Raised) or isinstance(b, _Raised):
        # the same refusal on the reused and on the fresh object is history-independent behaviour
        return isinstance(a, _Raised) and isinstance(b, _Raised) and a.kind == b.kind
    try:
        if isinstance(a, dict) and isinstance(b, dict):
            return list(map(str, a.keys())) == list(map(str, b.keys())) and all(np.array_equal(np.asarray(x), np.asarray(y)) for x, y in zip(a.values(), b.values()))
        if isinstance(a, (pd.Series, pd.DataFrame)):
            if type(a) is not type(b) or a.shape != b.shape:
                return False
            if not a.index.equals(b.index):
                return False
            av, bv = np.asarray(a), np.asarray(b)
            if av.dtype.kind in "fc" or bv.dtype.kind in "fc":
                return bool(np.array_equal(av.astype(float), bv.astype(float), equal_nan=True))
            return bool(np.array_equal(av, bv))
        av, bv = np.asarray(a), np.asarray(b)
        if av.dtype.kind == "f":
            return bool(np.array_equal(av, bv, equal_nan=True))
        return bool(np.array_equal(av, bv))
    except Exception:
        return False


def _rep(gb):
    try:
        if not gb.key_is_chunked:
            return "flat"
        return "local" if gb._group_key_pointers is not None else "glob"
    except Exception:
        return "unobservable"


def _try(f, *a, **k):
    try:
        return call(f, *a, **k)
    except Exception as ex:      # an outcome: compared with the fresh object's outcome
        return _Raised(ex)


def _refill(bufs, rng, n):
    """the caller rewrites its reusable argument buffers IN PLACE (same objects, new contents)."""
    bufs["v"][:] = [rng.choice([np.nan, 1.0, 2.0, 3.0]) for _ in range(n)]
    # whole groups drop out of / come back into the selection, the way "everything but group k" loops do
    drop = rng.choice(sorted(set(bufs["ids"])))
    bufs["m"][:] = [(k != drop) and rng.random() < 0.85 for k in bufs["ids"]]


def _do(gb, fresh_builder, op, rng, n, raw_keys, bufs=None):
    """perform one concrete call of class `op` on gb and on a fresh object; returns (result equal?, new gb)."""
    from groupby_lib import GroupBy
    v = np.array([rng.choice([np.nan, 1.0, 2.0, 3.0]) for _ in range(n)])
    m = None if rng.random() < 0.5 else np.array([rng.random() < 0.6 for _ in range(n)])
    reuse = bufs is not None and rng.random() < 0.6
    if reuse:                    # the caller's long-lived buffers (refilled in place by the "refill" steps)
        v, m = bufs["v"], bufs["m"]
    fresh = fresh_builder()
    if op in ("reduce", "reduce_pos", "transform", "size"):
        # reductions also see value dtypes without an in-band null and slice / positional masks
        r = rng.random()
        if r < 0.5 and not reuse:
            dt = rng.choice(["int32", "uint8", "bool", "int64", "float32"])
            v = np.array([rng.choice([1, 2, 3, 5]) for _ in range(n)]).astype(dt)
        r = rng.random() if not reuse else 1.0
        if r < 0.2 and n >= 2:
            k = rng.randrange(1, n)
            m = slice(k, None) if rng.random() < 0.6 else slice(None, k)
    if op == "reduce_pos":
        # integer positions, repeated and in any order (array indexing semantics); the library unifies chunked keys first
        m = np.array([rng.randrange(-n, n) for _ in range(rng.randrange(1, n + 2))], dtype=np.int64)
        if rng.random() < 0.3:
            return _equal(_try(gb.size, mask=m), _try(fresh.size, mask=m)), gb
        f = rng.choice(["sum", "min", "last", "count", "mean", "first", "max"])
        return _equal(_try(getattr(gb, f), v, mask=m), _try(getattr(fresh, f), v, mask=m)), gb
    if op == "reduce":
        f = rng.choice(["sum", "min", "last", "count", "mean", "first", "max"])
        return _equal(_try(getattr(gb, f), v, mask=m), _try(getattr(fresh, f), v, mask=m)), gb
    if op == "transform":
        f = rng.choice(["sum", "max", "count", "mean", "first"])
        return _equal(_try(getattr(gb, f), v, mask=m, transform=True), _try(getattr(fresh, f), v, mask=m, transform=True)), gb
    if op == "groups":
        return _equal(gb.groups, fresh.groups), gb
    if op == "select":
        f, k = rng.choice([("head", 1), ("head", 2), ("tail", 1), ("tail", 2), ("nth", 0), ("nth", 1), ("nth", -1)])
        return _equal(_try(getattr(gb, f), v, k, keep_input_index=True), _try(getattr(fresh, f), v, k, keep_input_index=True)), gb
    if op == "cumroll":
        f = rng.choice(["cumsum", "cummax", "rolling_sum", "rolling_max", "shift", "diff", "cumcount", "nearby"])
        if f == "nearby":
            w = np.arange(n, dtype=float)
            return _equal(_try(gb.group_nearby_members, w, 1.0), _try(fresh.group_nearby_members, w, 1.0)), gb
        if f == "cumcount":
            return _equal(_try(gb.cumcount, mask=m), _try(fresh.cumcount, mask=m)), gb
        kw = {"window": 2} if f in ("rolling_sum", "rolling_max", "shift", "diff") else {}
        if f.startswith("rolling"):
            kw["min_periods"] = 1
        return _equal(_try(getattr(gb, f), v, mask=m, **kw), _try(getattr(fresh, f), v, mask=m, **kw)), gb
    if op == "apply":
        if rng.random() < 0.5:
            return _equal(_try(gb.median, v, mask=m), _try(fresh.median, v, mask=m)), gb
        return _equal(_try(gb.apply, v, np.nansum, m), _try(fresh.apply, v, np.nansum, m)), gb
    if op == "ema":
        return _equal(_try(gb.ema, v, alpha=0.5, mask=m), _try(fresh.ema, v, alpha=0.5, mask=m)), gb
    if op == "size":
        return _equal(_try(gb.size, mask=m), _try(fresh.size, mask=m)), gb
    if op == "keycount":
        return _equal(gb.key_count, fresh.key_count) and gb.ngroups == fresh.ngroups and len(gb) == len(fresh), gb
    if op == "copy":
        g2 = _try(GroupBy, gb)
        return _equal(_try(g2.sum, v, mask=m), _try(fresh.sum, v, mask=m)) and _equal(_try(g2.size), _try(fresh.size)), g2
    if op == "classcall":
        return _equal(_try(GroupBy.sum, raw_keys(), v, mask=m), _try(fresh.sum, v, mask=m)), gb
    raise ValueError(op)


def run_history(case):
    """case: keys (ids), kenc, init flat|local, ops [names], seed."""
    from groupby_lib import GroupBy
    from groupby_lib.groupby import core
    rng = random.Random(case["seed"])
    ids = case["keys"]
    n = len(ids)
    e = api.key_encoder(case.get("kenc", "f64"))
    T = 4 if case["init"] == "local" else 10 ** 6

    def raw_keys():
        return e.enc(ids)

    def fresh_builder():
        core.THRESHOLD_FOR_CHUNKED_FACTORIZE = T
        return call(GroupBy, raw_keys())

    tr = {"init": case["init"], "keys": ids, "cfg": {"kenc": case.get("kenc", "f64"), "seed": case["seed"], "ops": case["ops"]}, "ev": []}
    core.THRESHOLD_FOR_CHUNKED_FACTORIZE = T
    try:
        gb = call(GroupBy, raw_keys())
    except Exception as ex:
        tr["ev"].append({"op": "reduce", "rep": "unobservable", "eq": 0, "exc": f"constructor: {type(ex).__name__}: {ex}"[:150]})
        return tr
    r0 = _rep(gb)
    if r0 not in (case["init"], "unobservable"):
        tr["init"] = r0          # e.g. fully monotonic keys stay flat even above the threshold
    bufs = {"v": np.zeros(n), "m": np.ones(n, dtype=bool), "ids": list(ids)}
    _refill(bufs, rng, n)
    for op in case["ops"]:
        try:
            if op == "refill":
                _refill(bufs, rng, n)
                eq = True
            else:
                eq, gb = _do(gb, fresh_builder, op, rng, n, raw_keys, bufs)
            ev = {"op": op, "rep": _rep(gb), "eq": int(bool(eq))}
        except Exception as ex:
            ev = {"op": op, "rep": "unobservable", "eq": 0, "exc": f"{type(ex).__name__}: {ex}"[:150]}
        tr["ev"].append(ev)
        if ev["eq"] == 0:
            break
    return tr
