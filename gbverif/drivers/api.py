"""Driver for the public GroupBy API (reductions, transform): builds real inputs from abstract
cases, calls the library, projects the result back into the abstract domain."""
import numpy as np
import pandas as pd
import polars as pl
import pyarrow as pa

from ..abstract import dtdesc, EMB, to_rat
from ..env import JUNK, NULL
from ..util import call
from .kernels import build_mask

STR = {1: "a", 2: "b", 3: "c", 4: "d", 5: "e"}
RSTR = {v: k for k, v in STR.items()}
DAY0 = np.datetime64("2020-01-01", "ns")


class KeyEnc:
    """label id <-> real key value for one key component."""

    def __init__(self, name, nullable, cats=None):
        self.name, self.nullable, self.cats = name, nullable, cats

    def enc(self, ids):
        n = self.name
        if n == "raw":
            return np.array(ids, dtype=np.int64)
        if n == "f64":
            return np.array([np.nan if i == NULL else float(i) for i in ids], dtype=float)
        if n == "i64":
            assert NULL not in ids
            return np.array([10 * i for i in ids], dtype=np.int64)
        if n == "i32":
            assert NULL not in ids
            return np.array([10 * i for i in ids], dtype=np.int32)
        if n == "str":
            return np.array([None if i == NULL else STR[i] for i in ids], dtype=object)
        if n == "M8":
            return np.array([np.datetime64("NaT", "ns") if i == NULL else DAY0 + np.timedelta64(i, "D") for i in ids],
                            dtype="datetime64[ns]")
        if n == "bool":
            assert all(i in (0, 1) for i in ids)
            return np.array([bool(i) for i in ids], dtype=bool)
        if n.startswith("cat"):
            cats = self.cats
            codes = [-1 if i == NULL else cats.index(i) for i in ids]
            return pd.Categorical.from_codes(codes, categories=[STR[c] for c in cats])
        raise ValueError(n)

    def dec(self, x):
        n = self.name
        try:
            if x is None or x is pd.NaT or x is pd.NA or (isinstance(x, float) and np.isnan(x)):
                return NULL
            if n == "f64":
                return int(x) if float(x) == int(x) else JUNK
            if n == "raw":
                return int(x)
            if n in ("i64", "i32"):
                return int(x) // 10 if int(x) % 10 == 0 else JUNK
            if n == "str" or n.startswith("cat"):
                return RSTR.get(x, JUNK)
            if n == "M8":
                d = (pd.Timestamp(x).to_datetime64().astype("datetime64[ns]") - DAY0) / np.timedelta64(1, "D")
                return int(d) if d == int(d) else JUNK
            if n == "bool":
                return int(bool(x))
        except Exception:
            return JUNK
        return JUNK

    def rank(self, present):
        if self.name.startswith("cat"):
            return list(self.cats)
        if self.name == "bool":
            return [0, 1]
        return sorted(present)


def key_encoder(name):
    if name == "cat":            # categories declared in sorted order, one unused ("d")
        return KeyEnc("cat", True, cats=[1, 2, 3, 4])
    if name == "catperm":        # category order differs from lexicographic order
        return KeyEnc("catperm", True, cats=[3, 1, 4, 2])
    return KeyEnc(name, name in ("f64", "str", "M8"))


NAN_AS_NULL = False     # per case ("nanull"): a float NaN / NaT becomes a real null in arrow / polars containers


def _pa(arr, type=None):
    if NAN_AS_NULL and isinstance(arr, np.ndarray) and arr.dtype.kind == "f":
        return pa.array(arr, type=type, from_pandas=True)
    return pa.array(arr, type=type)


def wrap_container(arr, cont, name=None, index=None):
    """real ndarray / Categorical -> the requested container."""
    if cont == "np":
        return arr
    if cont == "series":
        return pd.Series(arr, name=name, index=index)
    if cont == "index":
        return pd.Index(arr, name=name)
    if cont == "pl":
        s_ = pl.Series(name or "", np.asarray(arr))
        return s_.fill_nan(None) if NAN_AS_NULL and s_.dtype.is_float() else s_
    if cont == "pa":
        return _pa(arr)
    if isinstance(cont, (list, tuple)) and cont[0] == "pachunk":
        pos, chunks = 0, []
        typ = pa.array(arr).type         # (a chunk of nulls alone would get the null type)
        for l in cont[1]:
            chunks.append(_pa(arr[pos:pos + l], type=typ))
            pos += l
        return pa.chunked_array(chunks, type=typ)
    if isinstance(cont, (list, tuple)) and cont[0] == "pachunkdict":
        # arrow dictionary-typed keys, every chunk encoded on its own: the chunks' dictionaries differ (order and content)
        pos, chunks = 0, []
        typ = None
        for l in cont[1]:
            ch = pa.array(arr[pos:pos + l], type=pa.array(arr).type).dictionary_encode()
            typ = typ or ch.type
            chunks.append(ch)
            pos += l
        return pa.chunked_array(chunks, type=typ)
    if cont == "arrowseries":
        if NAN_AS_NULL and isinstance(arr, np.ndarray) and arr.dtype.kind == "f":
            return pd.Series(pd.arrays.ArrowExtensionArray(_pa(arr)), name=name)
        return pd.Series(pd.array(arr, dtype=pd.ArrowDtype(pa.array(arr).type)), name=name)
    if cont == "series_tz":          # the same instants, time zone aware (datetime embeddings only)
        return pd.Series(arr, name=name, index=index).dt.tz_localize("UTC").dt.tz_convert("Europe/Dublin")
    if cont == "nullable":           # pandas masked extension arrays (Int64 / Float64 / boolean)
        return pd.Series(pd.array(arr, dtype={"i": "Int", "u": "UInt", "f": "Float"}[arr.dtype.kind] + str(arr.dtype.itemsize * 8) if arr.dtype.kind != "b" else "boolean"), name=name)
    if cont in ("nullable_int", "arrow_int"):      # integer columns that carry real missing values (pandas Int64 / int64[pyarrow])
        vals = [None if (isinstance(x, float) and x != x) else int(x) for x in np.asarray(arr).tolist()]
        return pd.Series(pd.array(vals, dtype=("Int64" if cont == "nullable_int" else pd.ArrowDtype(pa.int64()))), name=name)
    if cont == "frame1":
        return pd.DataFrame({name or "v": arr}, index=index)
    if cont == "plframe":
        return pl.DataFrame({name or "v": wrap_container(arr, "pl", name=name or "v")})
    raise ValueError(cont)


def build_keys(case):
    keys = case["keys"]
    nk = len(case["kenc"])
    cols, encs = [], []
    for j in range(nk):
        e = key_encoder(case["kenc"][j])
        encs.append(e)
        ids = [row[j] for row in keys]
        arr = e.enc(ids)
        names = case.get("knames")
        cols.append(wrap_container(arr, case.get("kcont", "np"), name=(names[j] if names else None)))
    return (cols[0] if nk == 1 else cols), encs


def key_meta(case, encs):
    """rank per level and dictionary seed (declared categories) for the spec."""
    nk = len(encs)
    rank = []
    for j, e in enumerate(encs):
        present = {row[j] for row in case["keys"] if row[j] != NULL}
        rank.append(e.rank(present))
    seed = []
    if nk == 1 and (encs[0].name.startswith("cat") or encs[0].name == "bool"):
        seed = [[c] for c in rank[0]]
    return rank, seed


def dec_values(op, arr, emb):
    a = np.asarray(arr)
    if op in ("size", "count"):
        if a.dtype.kind in "mM":
            a = a.view(np.int64)
        return [int(x) if x == x else NULL for x in a.tolist()], None
    if op == "sum":
        his, los = emb.dec_sum(a)
        return los, (his if emb.base != 0 else None)
    if op == "mean":
        if a.dtype.kind in "mM":
            return emb.dec_arr(a), None
        return [to_rat(x) for x in a.astype(float).tolist()], None
    if op == "var":
        return [to_rat(x, max_den=10 ** 6) for x in a.astype(float).tolist()], None
    if op == "std":
        return [to_rat(x * x, max_den=10 ** 6) for x in a.astype(float).tolist()], None
    return emb.dec_arr(a), None


def set_config(case):
    from groupby_lib import _verif
    from groupby_lib.groupby import core
    global NAN_AS_NULL
    NAN_AS_NULL = bool(case.get("nanull"))
    core.THRESHOLD_FOR_CHUNKED_FACTORIZE = case.get("T") or 1_000_000
    _verif.ROWS_PER_THREAD = case.get("R") or 1_000_000


def pl_to_numpy(s_):
    """polars Series -> ndarray; a temporal value that is not null but holds the NaT bit pattern (a null that lost its
    validity bit) must not pass for a null: it is replaced by a value no embedding decodes."""
    a = s_.to_numpy()
    if s_.dtype.is_temporal() and len(s_):
        bad = (s_.to_physical() == np.iinfo(np.int64).min).fill_null(False).to_numpy()
        if bad.any():
            a = a.copy()
            a[bad] = np.array(12345, dtype="int64").view(a.dtype) if a.dtype.kind in "mM" else 12345
    return a


def pd_to_numpy(s_):
    """pandas Series / Index -> ndarray; same guard for arrow-backed temporal data (NaT bit pattern with the validity bit set)."""
    a = s_.to_numpy()
    if a.dtype.kind in "mM" and isinstance(getattr(s_, "dtype", None), pd.ArrowDtype) and len(a):
        bad = np.isnat(a) & ~np.asarray(s_.isna())
        if bad.any():
            a = a.copy()
            a[bad] = np.array(12345, dtype="int64").view(a.dtype)
    return a


def to_1d(obj):
    if isinstance(obj, pl.Series):
        return pl_to_numpy(obj), None
    if isinstance(obj, pd.Series):
        return pd_to_numpy(obj), obj.index
    if isinstance(obj, pd.DataFrame) and obj.shape[1] == 1:
        return pd_to_numpy(obj.iloc[:, 0]), obj.index
    if isinstance(obj, pl.DataFrame) and obj.shape[1] == 1:
        return pl_to_numpy(obj.to_series(0)), None
    return np.asarray(obj), None


def build_call_mask(case, n):
    m = build_mask(case["mask"], n)
    mc = case.get("mcont", "np")
    if m is not None and case["mask"]["k"] == "bool" and mc == "series":
        return pd.Series(m)
    if m is not None and case["mask"]["k"] == "pos" and mc == "list":
        return list(m)
    return m


def run_reduce(case, gb=None):
    """case: op keys kenc [kcont] vals emb [vcont] mask tf oo sort [T R]."""
    from groupby_lib import GroupBy, _verif
    op, emb = case["op"], EMB[case["emb"]]
    n = len(case["keys"])
    set_config(case)
    tr = {k: case[k] for k in ("op", "keys", "vals", "mask", "tf", "oo", "sort")}
    if op in ("var", "std"):
        tr["ddof"] = case.get("ddof", 1)
    tr.update(emb=case["emb"], kenc=case["kenc"], nonull=int(emb.nonull), cfg={k: case.get(k) for k in ("T", "R", "kcont", "vcont", "mcont", "pre", "nanull", "vname")})
    try:
        keyobj, encs = build_keys(case)
        tr["rank"], tr["seed"] = key_meta(case, encs)
        if isinstance(case.get("kcont"), (list, tuple)) and case["kcont"][0] == "pachunkdict":
            # arrow dictionary-typed keys are categorical: "category order" is the order of the (unified) dictionary, i.e. the
            # first appearance of each label across the chunks
            seen = []
            for row in case["keys"]:
                if row[0] != NULL and row[0] not in seen:
                    seen.append(row[0])
            tr["rank"] = [seen]
        values = wrap_container(emb.enc(case["vals"]), case.get("vcont", "np"), name=case.get("vname"), index=case.get("vindex"))
        mask = build_call_mask(case, n)
        tr["idt"] = dtdesc(values)
    except Exception as ex:
        raise RuntimeError(f"harness could not build inputs: {type(ex).__name__}: {ex}")
    _verif.drain()
    try:
        if gb is None:
            gb = call(GroupBy, keyobj, sort=bool(case["sort"]))
        for pre in case.get("pre") or []:       # earlier calls on the same object (they may re-code chunked keys)
            if pre == "groups":
                gb.groups
            elif pre == "size":
                call(gb.size)
        kw = dict(mask=mask, transform=bool(case["tf"]), observed_only=bool(case["oo"]))
        if op == "size":
            out = call(gb.size, **kw)
        elif op in ("var", "std"):
            out = call(getattr(gb, op), values, ddof=case.get("ddof", 1), **kw)
        else:
            out = call(getattr(gb, op), values, **kw)
    except Exception as ex:
        tr.update(out="raise", exc=type(ex).__name__, msg=str(ex)[:200], labels=[], res=[])
        tr["events"] = [e["e"] + ":" + str(e.get("kind", e.get("n_threads", ""))) for e in _verif.drain()][:12]
        return tr
    ev = _verif.drain()
    tr["events"] = sorted({e["e"] + ":" + str(e.get("kind", e.get("n_threads", ""))) for e in ev})
    tr["out"] = "ok"
    tr["odt"] = dtdesc(out)
    arr, index = to_1d(out)
    res, hi = dec_values(op, arr, emb)
    tr["res"] = res
    if hi is not None:
        tr["reshi"] = hi
    if case["tf"]:
        tr["labels"] = []
    else:
        labels = []
        if isinstance(index, pd.MultiIndex):
            for tup in index.tolist():
                labels.append([e.dec(x) for e, x in zip(encs, tup)])
        else:
            labels = [[encs[0].dec(x)] for x in index.tolist()]
        tr["labels"] = labels
    tr["rtype"] = type(out).__name__
    if case["tf"] and op != "size":
        # C07: the container follows the input, and a pandas input's index is carried
        vc = case.get("vcont", "np")
        tr["kindok"] = int(isinstance(out, (pl.Series, pl.DataFrame)) if vc in ("pl", "plframe") else isinstance(out, (pd.Series, pd.DataFrame)))
        if vc == "series" and case.get("vindex") is not None:
            tr["idxok"] = int(list(out.index) == list(case["vindex"]))
        elif vc not in ("pl", "plframe") and isinstance(out, (pd.Series, pd.DataFrame)):
            tr["idxok"] = int(list(out.index) == list(range(n)))
    return tr


def run_value_counts(case):
    """groupby.value_counts(x, normalize, mask): returns [size-trace for GBCore, normalisation trace]."""
    from groupby_lib.groupby import value_counts
    n = len(case["keys"])
    set_config(case)
    tr = {k: case[k] for k in ("keys", "mask", "sort")}
    tr.update(op="size", vals=[1] * n, tf=0, oo=1, emb="f64", kenc=case["kenc"], nonull=0, cfg={k: case.get(k) for k in ("T", "kcont", "mcont")}, fn="value_counts")
    keyobj, encs = build_keys(case)
    tr["rank"], tr["seed"] = key_meta(case, encs)
    mask = build_call_mask(case, n)
    nt = {"fn": "value_counts_normalize", "keys": case["keys"], "mask": case["mask"], "cfg": tr["cfg"]}
    try:
        out = call(value_counts, keyobj, mask=mask)
        tr["out"] = "ok"
        tr["res"] = [int(x) for x in out.tolist()]
        tr["labels"] = [[encs[0].dec(x)] for x in out.index.tolist()]
    except Exception as ex:
        tr.update(out="raise", exc=type(ex).__name__, msg=str(ex)[:200], labels=[], res=[])
        nt.update(out="raise", counts=[], norm=[], labels_same=0)
        return [tr, nt]
    try:
        nrm = call(value_counts, keyobj, normalize=True, mask=mask)
        nt.update(out="ok", counts=tr["res"], norm=[to_rat(float(x)) for x in nrm.tolist()], labels_same=int(list(map(str, nrm.index.tolist())) == list(map(str, out.index.tolist()))))
    except Exception as ex:
        nt.update(out="raise", exc=type(ex).__name__, msg=str(ex)[:200], counts=tr["res"], norm=[], labels_same=0)
    return [tr, nt]
