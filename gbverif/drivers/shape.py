"""Driver for C11: keys / values given in every accepted form; result kind, labelling and per-column contents."""
import numpy as np
import pandas as pd
import polars as pl

from ..abstract import EMB
from ..env import NULL
from ..util import call
from . import api


def run_shape(case):
    """case: op, keys (rows of tuples), kenc, knames (list of str|None), vcols (list of value lists), vnames, vkind,
    sort, oo, mask.  Returns a list: [shape trace, column trace 1, ...]."""
    from groupby_lib import GroupBy
    api.set_config(case)
    emb = EMB[case.get("emb", "f64")]
    n = len(case["keys"])
    nk = len(case["kenc"])
    encs = [api.key_encoder(k) for k in case["kenc"]]
    kcols = []
    for j, e in enumerate(encs):
        arr = e.enc([r[j] for r in case["keys"]])
        nm = case["knames"][j]
        kcols.append(pd.Series(arr, name=nm) if nm is not None else (arr if case.get("kraw", True) else pd.Series(arr)))
    kk = case.get("kkind", "list")
    if nk == 1:
        keyobj = kcols[0]
    elif kk == "dict" and all(nm is not None for nm in case["knames"]):
        keyobj = {nm: np.asarray(c) if not isinstance(c.dtype, pd.CategoricalDtype) else c for nm, c in zip(case["knames"], kcols)}
    elif kk == "frame" and all(nm is not None for nm in case["knames"]):
        keyobj = pd.DataFrame({nm: c for nm, c in zip(case["knames"], kcols)})
    else:
        keyobj = list(kcols)
    arrs = [emb.enc(v) for v in case["vcols"]]
    vk, vn = case["vkind"], case["vnames"]
    if vk == "array":
        values = arrs[0]
    elif vk == "series":
        values = pd.Series(arrs[0], name=vn[0])
    elif vk == "plseries":
        values = pl.Series(vn[0] or "", arrs[0])
    elif vk == "list":
        values = [pd.Series(a, name=nm) if nm is not None else a for a, nm in zip(arrs, vn)]
    elif vk == "dict":
        values = {nm: a for a, nm in zip(arrs, vn)}
    elif vk == "frame":
        values = pd.DataFrame({nm: a for a, nm in zip(arrs, vn)})
    elif vk == "2d":
        values = np.column_stack(arrs)
    else:
        raise ValueError(vk)
    mask = api.build_mask(case["mask"], n)
    rank, seed = api.key_meta(dict(case, keys=case["keys"]), encs)
    shape = {"kind": "shape", "nvals": len(arrs), "single1d": int(vk in ("array", "series", "plseries")),
             "vnames": ["" if nm is None else str(nm) for nm in vn], "knames": ["" if nm is None else str(nm) for nm in case["knames"]],
             "cfg": {k: case.get(k) for k in ("op", "vkind", "kkind", "kenc", "sort", "oo")}, "keys": case["keys"], "mask": case["mask"]}
    out_traces = [shape]
    try:
        gb = call(GroupBy, keyobj, sort=bool(case["sort"]))
        op = case["op"]
        tf = bool(case.get("tf"))
        out = call(getattr(gb, op), values, mask=mask, transform=True) if tf else call(getattr(gb, op), values, mask=mask, observed_only=bool(case["oo"]))
        if isinstance(out, pl.Series):
            out = out.to_pandas()
        elif isinstance(out, pl.DataFrame):
            out = out.to_pandas()
    except Exception as ex:
        shape.update(out="raise", exc=type(ex).__name__, msg=str(ex)[:160], rkind="", rname="", ridxnames=[], rcols=[])
        return out_traces
    shape["out"] = "ok"
    shape["tf"] = int(bool(case.get("tf")))
    shape["rkind"] = "series" if isinstance(out, pd.Series) else "frame" if isinstance(out, pd.DataFrame) else type(out).__name__
    shape["rname"] = (out.name if isinstance(out, pd.Series) and out.name is not None else "") if isinstance(out, pd.Series) else ""
    shape["rname"] = str(shape["rname"])
    shape["ridxnames"] = [("" if nm is None else str(nm)) for nm in out.index.names]
    shape["rcols"] = [str(c) for c in out.columns] if isinstance(out, pd.DataFrame) else []
    # contents: every column against the single-input specification result
    cols = [out] if isinstance(out, pd.Series) else [out.iloc[:, j] for j in range(out.shape[1])]
    for j, col in enumerate(cols):
        if j >= len(arrs):
            break
        res, hi = api.dec_values(op, col.to_numpy(), emb)
        idx = col.index
        labels = [[e.dec(x) for e, x in zip(encs, t)] for t in idx.tolist()] if isinstance(idx, pd.MultiIndex) else [[encs[0].dec(x)] for x in idx.tolist()]
        if case.get("tf"):
            labels = []          # transform: one value per input row
        tr = dict(op=op, keys=case["keys"], vals=case["vcols"][j], mask=case["mask"], tf=int(bool(case.get("tf"))), oo=case["oo"], sort=case["sort"], emb=case.get("emb", "f64"),
                  kenc=case["kenc"], nonull=int(emb.nonull), rank=rank, seed=seed, out="ok", labels=labels, res=res, column=j, kind="column",
                  cfg={"vkind": vk, "T": case.get("T")})
        out_traces.append(tr)
    return out_traces
