"""Driver for reductions over CHUNKED group keys (spec GBChunked / Trace_GBChunked).

One case = one real GroupBy.<op>(values, mask=..., observed_only=False) call on keys that are chunk-wise factorized
(threshold scaled down) or arrive as a pyarrow ChunkedArray (any chunk layout, empty chunks included).  The trace
carries what the public API shows (result per label, the object's result index and chunk lengths) and, from hook
H6 (`ChunkPartials`), what every piece of the (sliced) code array contributed through which pointer table.
"""
import numpy as np
import pandas as pd
import pyarrow as pa

from ..abstract import EMB
from ..env import NULL
from ..util import call
from . import api
from .kernels import build_mask

KERNEL_OF = {"size": "size", "count": "count", "sum": "sum", "min": "min", "max": "max", "first": "first", "last": "last"}


def _dec_partial(op, arr, emb):
    a = np.asarray(arr)
    if op in ("size", "count"):
        if a.dtype.kind in "mM":
            a = a.view(np.int64)
        return [int(x) for x in a.tolist()]
    if op == "sum":
        return emb.dec_sum(a)[1]
    return emb.dec_arr(a)


def run_chunked(case):
    """case: op keys(ids) vals [vals2] emb kenc klens|None T mask sort pre tf.  With vals2 the call receives two value columns
    (a list of two arrays: the library runs n_values x pieces tasks and slices the task results back per column) and one trace
    per column is returned."""
    from groupby_lib import GroupBy, _verif
    op, emb = case["op"], EMB[case["emb"]]
    ids = list(case["keys"])
    n = len(ids)
    api.set_config({"T": case.get("T"), "R": None})
    e = api.key_encoder(case["kenc"])
    karr = e.enc(ids)
    if case.get("klens"):
        pos, chunks = 0, []
        typ = pa.array(karr).type
        for ln in case["klens"]:
            chunks.append(pa.array(karr[pos:pos + ln], type=typ))
            pos += ln
        keyobj = pa.chunked_array(chunks, type=typ)
    else:
        keyobj = karr
    values = emb.enc(case["vals"])
    two = case.get("vals2") is not None and op != "size"
    if two:
        values = {"a": values, "b": emb.enc(case["vals2"])}
    mask = build_mask(case["mask"], n)
    tr = {"kernel": KERNEL_OF[op], "keys": ids, "vals": list(case["vals"]), "mask": case["mask"], "nonull": int(emb.nonull),
          "cfg": {k: case.get(k) for k in ("T", "klens", "kenc", "emb", "sort", "pre", "tf")}, "internal": 0,
          "klens": [n], "rep": "global", "labels": [], "pieces": [], "final": [], "first": 0}
    _verif.drain()
    try:
        gb = call(GroupBy, keyobj, sort=bool(case["sort"]))
        for pre in case.get("pre") or []:
            if pre == "groups":
                gb.groups
            elif pre == "size":
                call(gb.size)
        tr["chunked"] = int(bool(gb.key_is_chunked))
        tr["klens"] = [int(x) for x in gb._group_key_lengths]
        tr["rep"] = "pointers" if getattr(gb, "_group_key_pointers", None) is not None else "global"
        tr["labels"] = [e.dec(x) for x in gb.result_index.tolist()]
        _verif.drain()
        tf = bool(case.get("tf"))
        kw = dict(transform=True) if tf else dict(observed_only=False)
        if op == "size":
            out = call(gb.size, mask=mask, **kw)
        else:
            out = call(getattr(gb, op), values, mask=mask, **kw)
    except Exception as ex:
        tr.update(out="raise", exc=type(ex).__name__, msg=str(ex)[:200])
        return tr
    ev = [x for x in _verif.drain() if x["e"] == "ChunkPartials"]
    tr["out"] = "ok"
    # count_ikey(mask): the selected rows per label, resolved through the same pieces / pointer tables (the observed filter reads it)
    try:
        kc = call(gb.count_ikey, mask=mask)
        tr["kcount"] = [int(x) for x in np.asarray(kc).tolist()]
    except Exception as ex:
        tr["kcount"] = [-996]
        tr["kcount_exc"] = f"{type(ex).__name__}: {ex}"[:160]
    _verif.drain()
    if two:
        return _two_columns(case, tr, out, ev, op, emb, e, tf)
    arr, index = api.to_1d(out)
    res, _ = api.dec_values(op, arr, emb)
    if tf:
        tr["tout"] = res                # one value per input row
    else:
        by_label = {e.dec(x): r for x, r in zip(index.tolist(), res)}
        tr["final"] = [by_label.get(lab, -996) for lab in tr["labels"]]
        tr["nfinal"] = len(res)
    _attach_pieces(tr, ev, op, emb, 0)
    return tr


def _attach_pieces(tr, ev, op, emb, col):
    """the per-piece partials of value column `col` from the ChunkPartials event (results are laid out column by column)."""
    if ev and tr["chunked"]:
        x = ev[-1]          # (size / count_ikey calls do not pass through the hook; the reduction itself is the last event)
        try:
            npieces = len(x["piece_lengths"])
            pieces = []
            off = col * npieces
            for j in range(off, off + npieces):
                if x["pointers"] is None:
                    ptr = list(range(1, len(tr["labels"]) + 1))
                else:
                    ptr = [int(p) + 1 for p in x["pointers"][x["first"] + j - off].tolist()]
                r = _dec_partial(op, x["results"][j][:-1], emb)
                c = [int(v) for v in np.asarray(x["counts"][j][:-1]).tolist()]
                pieces.append({"len": int(x["piece_lengths"][j - off]), "ptr": ptr, "res": r[:len(ptr)], "cnt": c[:len(ptr)]})
            tr["pieces"], tr["first"], tr["internal"] = pieces, int(x["first"]), 1
        except Exception as ex:       # the hook's payload changed shape: internal conformance is skipped, never failed
            tr["internal"], tr["internal_error"] = 0, f"{type(ex).__name__}: {ex}"[:200]


def _two_columns(case, tr, out, ev, op, emb, e, tf):
    """one trace per value column; column b's partials are the second block of task results."""
    import copy
    traces = []
    for col, name in enumerate(("a", "b")):
        t = copy.deepcopy(tr)
        t["vals"] = list(case["vals"] if col == 0 else case["vals2"])
        t["column"] = name
        try:
            ser = out[name]
            arr, index = api.to_1d(ser)
            res, _ = api.dec_values(op, arr, emb)
            if tf:
                t["tout"] = res
            else:
                by_label = {e.dec(x): r for x, r in zip(index.tolist(), res)}
                t["final"] = [by_label.get(lab, -996) for lab in t["labels"]]
        except Exception as ex:
            t.update(out="raise", exc=type(ex).__name__, msg=f"column {name}: {ex}"[:200])
        _attach_pieces(t, ev, op, emb, col)
        traces.append(t)
    return traces


def replay_state(case):
    """specification -> code: `case` is a terminal (pc = "done") state of GBChunked as TLC dumped it: the call (kernel, keys, vals,
    chunk layout, representation, mask) and what the machine merged (per label) or broadcast (per row).  The same call is made on
    a real grouping and must return the state's values."""
    from groupby_lib import GroupBy
    inv = {"size": "size", "count": "count", "sum": "sum", "min": "min", "max": "max", "first": "first", "last": "last"}
    op = inv[case["kernel"]]
    keys, vals, klens, n = case["keys"], case["vals"], case["klens"], len(case["keys"])
    api.set_config({"T": None, "R": None})
    e = api.key_encoder("i64")
    karr = e.enc(keys)
    pos, chunks = 0, []
    for ln in klens:
        chunks.append(pa.array(karr[pos:pos + ln], type=pa.int64()))
        pos += ln
    emb = EMB["f64"]
    values = emb.enc(vals)
    mask = build_mask(case["mask"], n)
    t = {"spec": {k: case[k] for k in ("kernel", "keys", "vals", "klens", "rep", "mask", "labels", "expect", "tf")}, "ok": 0}
    try:
        gb = call(GroupBy, pa.chunked_array(chunks, type=pa.int64()))
        if case["rep"] == "global":
            gb.groups
        kw = dict(transform=True) if case["tf"] else dict(observed_only=False)
        out = call(gb.size, mask=mask, **kw) if op == "size" else call(getattr(gb, op), values, mask=mask, **kw)
        arr, index = api.to_1d(out)
        res, _ = api.dec_values(op, arr, emb)
        if case["tf"]:
            got = res
        else:
            by_label = {e.dec(x): r for x, r in zip(index.tolist(), res)}
            got = [by_label.get(lab, -996) for lab in case["labels"]]
        t["got"] = got
        t["ok"] = int(got == case["expect"])
    except Exception as ex:
        t.update(exc=type(ex).__name__, msg=str(ex)[:160])
    return t
