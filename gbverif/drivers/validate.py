"""Driver for C18: one argument of one public operation is misaligned (length or pandas index)."""
import numpy as np
import pandas as pd

from ..util import call

N = 6
INDEX = [10, 11, 12, 13, 14, 15]
KEYS = [1, 2, 1, 3, 2, 1]


def _index(rel, n):
    base = (INDEX + [16 + j for j in range(8)])[:n]
    if rel == "identical":
        return base
    if rel == "permuted":
        return base[::-1]
    if rel == "shifted":
        return [x + 1 for x in base]
    if rel == "duplicated":
        return [base[0], base[0]] + base[2:]
    raise ValueError(rel)


def _arr(kind, n):
    if kind == "mask":
        return np.array([True, False, True, True, False, True, True, False, True, True][:n])
    if kind == "times":
        return np.array([np.datetime64("2024-01-01T00:00:00") + np.timedelta64(j, "s") for j in range(n)], dtype="datetime64[ns]")
    if kind == "ints":
        return np.array([1, 2, 3, 4, 5, 6, 7, 8, 9, 10][:n])
    return np.array([1.0, 2.0, 4.0, 3.0, 5.0, 2.0, 7.0, 1.0, 3.0, 2.0][:n])


def _obj(kind, delta, rel, vdt="f"):
    n = N + delta
    a = _arr(kind, n)
    if kind == "vals" and vdt in ("M", "Mtz"):
        a = np.array([np.datetime64("2024-03-01T00:00:00") + np.timedelta64(int(x), "h") for x in a], dtype="datetime64[ns]")
    if rel == "none":
        return a
    s_ = pd.Series(a, index=_index(rel, n))
    return s_.dt.tz_localize("UTC").dt.tz_convert("Europe/Dublin") if (kind == "vals" and vdt == "Mtz") else s_


def _ops():
    """name -> (perturbable arguments, callable(gb, A)) where A maps argument name -> object."""
    red = {f: (("values", "mask", "values_el"), (lambda gb, A, f=f: getattr(gb, f)(A["values"] if "values_el" not in A else [A["values"], A["values_el"]], mask=A.get("mask"))))
           for f in ("count", "sum", "mean", "min", "max", "first", "last", "var", "std")}
    ops = dict(red)
    ops["size"] = (("mask",), lambda gb, A: gb.size(mask=A.get("mask")))
    ops["sum_transform"] = (("values", "mask"), lambda gb, A: gb.sum(A["values"], mask=A.get("mask"), transform=True))
    ops["agg"] = (("values", "mask"), lambda gb, A: gb.agg(A["values"], ["sum", "max"], mask=A.get("mask")))
    ops["apply"] = (("values", "mask"), lambda gb, A: gb.apply(A["values"], np.nansum, A.get("mask")))
    ops["median"] = (("values", "mask"), lambda gb, A: gb.median(A["values"], mask=A.get("mask")))
    ops["quantile"] = (("values", "mask"), lambda gb, A: gb.quantile(A["values"], q=[0.5], mask=A.get("mask")))
    for f in ("cumsum", "cummin", "cummax"):
        ops[f] = (("values", "mask"), lambda gb, A, f=f: getattr(gb, f)(A["values"], mask=A.get("mask")))
    ops["cumcount"] = (("mask",), lambda gb, A: gb.cumcount(mask=A.get("mask")))
    for f in ("rolling_sum", "rolling_mean", "rolling_min", "rolling_max"):
        ops[f] = (("values", "mask"), lambda gb, A, f=f: getattr(gb, f)(A["values"], window=2, min_periods=1, mask=A.get("mask")))
    ops["shift"] = (("values", "mask"), lambda gb, A: gb.shift(A["values"], window=1, mask=A.get("mask")))
    ops["diff"] = (("values", "mask"), lambda gb, A: gb.diff(A["values"], window=1, mask=A.get("mask")))
    ops["ema"] = (("values", "mask"), lambda gb, A: gb.ema(A["values"], alpha=0.5, mask=A.get("mask")))
    ops["ema_timed"] = (("values", "times", "mask"), lambda gb, A: gb.ema(A["values"], halflife="1s", times=A["times"], mask=A.get("mask")))
    # the group-sorted output layout is a separate path through the index handling
    ops["ema_bygroup"] = (("values", "mask"), lambda gb, A: gb.ema(A["values"], alpha=0.5, mask=A.get("mask"), index_by_groups=True))
    ops["ema_timed_bygroup"] = (("values", "times", "mask"), lambda gb, A: gb.ema(A["values"], halflife="1s", times=A["times"], mask=A.get("mask"), index_by_groups=True))
    ops["rolling_sum_bygroup"] = (("values", "mask"), lambda gb, A: gb.rolling_sum(A["values"], window=2, min_periods=1, mask=A.get("mask"), index_by_groups=True))
    for f in ("head", "tail", "nth"):
        ops[f] = (("values",), lambda gb, A, f=f: getattr(gb, f)(A["values"], 1, keep_input_index=True))
        ops[f + "_nokeep"] = (("values",), lambda gb, A, f=f: getattr(gb, f)(A["values"], 1))
    ops["ratio"] = (("values", "values2", "mask"), lambda gb, A: gb.ratio(A["values"], A["values2"], mask=A.get("mask")))
    ops["subset_ratio"] = (("values", "subset_mask", "mask"), lambda gb, A: gb.subset_ratio(A["values"], A["subset_mask"], A["mask"] if A.get("mask") is not None else pd.Series(np.ones(N, dtype=bool), index=INDEX)))
    ops["density"] = (("values", "mask"), lambda gb, A: gb.density(A["values"], mask=A.get("mask")))
    ops["group_nearby_members"] = (("ints",), lambda gb, A: gb.group_nearby_members(A["ints"], 1))
    return ops


OPS = _ops()
TEMPORAL_OK = {"count", "min", "max", "first", "last", "cummin", "cummax", "shift", "diff", "head", "tail", "nth", "head_nokeep", "tail_nokeep", "nth_nokeep"}
KIND = {"values": "vals", "values_el": "vals", "values2": "vals", "mask": "mask", "subset_mask": "mask", "times": "times", "ints": "ints"}


def all_cases():
    cases = []
    for name, (args, _) in OPS.items():
        for arg in args:
            for delta in (-2, -1, 0, 1, 2):
                rels = ["none", "identical", "permuted", "shifted", "duplicated"] if delta == 0 else ["none", "identical"]
                for rel in rels:
                    if arg == "ints" and rel != "none":
                        continue        # group_nearby_members takes plain arrays
                    cases.append(dict(op=name, arg=arg, delta=delta, idxrel=rel))
                    # the other arguments as plain arrays (only the keys and the perturbed argument carry an index)
                    if rel != "none" and arg != "ints":
                        cases.append(dict(op=name, arg=arg, delta=delta, idxrel=rel, others="numpy"))
                    # datetime values (tz-naive / tz-aware): they are converted before the kernels see them
                    if KIND[arg] == "vals" and name in TEMPORAL_OK:
                        for vdt in ("M", "Mtz"):
                            if not (vdt == "Mtz" and rel == "none"):
                                cases.append(dict(op=name, arg=arg, delta=delta, idxrel=rel, vdt=vdt))
    # facade: the frame defines keys and values together; a foreign mask / times argument can still be misaligned
    for meth in ("sum", "mean", "min", "max", "count", "size", "std", "var", "first", "last"):
        for delta in (-2, -1, 0, 1, 2):
            for rel in (["none", "identical", "permuted", "shifted", "duplicated"] if delta == 0 else ["none", "identical"]):
                cases.append(dict(op="facade_" + meth, arg="mask", delta=delta, idxrel=rel))
    return cases


def run_case(case):
    from groupby_lib import GroupBy
    name, arg, delta, rel = case["op"], case["arg"], case["delta"], case["idxrel"]
    tr = {"op": name, "arg": arg, "delta": delta + 10, "idxrel": rel, "cfg": {"others": case.get("others", "series"), "vdt": case.get("vdt", "f")}}
    vdt = case.get("vdt", "f")
    keys = pd.Series(np.array(KEYS, dtype=float), index=INDEX, name="k")
    try:
        if name.startswith("facade_"):
            from groupby_lib.groupby.monkey_patch import install_groupby_fast
            import contextlib, io
            with contextlib.redirect_stdout(io.StringIO()):
                install_groupby_fast()
            df = pd.DataFrame({"k": KEYS, "v": _arr("vals", N)}, index=INDEX)
            m = _obj("mask", delta, rel)
            out = call(getattr(df.groupby_fast("k"), name[len("facade_"):]), mask=m)
        else:
            args, fn = OPS[name]
            A = {}
            for a in args:
                if a in ("mask", "values_el"):
                    continue            # optional arguments are passed only when they are the perturbed one
                A[a] = _obj(KIND[a], 0, "identical" if (a != "ints" and case.get("others") != "numpy") else "none", vdt)
            A[arg] = _obj(KIND[arg], delta, rel, vdt)
            gb = call(GroupBy, keys)
            out = call(fn, gb, A)
        # force lazy containers
        _ = len(out)
        tr["outcome"] = "return"
    except Exception as ex:
        tr["outcome"] = "reject"
        tr["exc"] = type(ex).__name__
        tr["msg"] = str(ex)[:120]
    return tr
