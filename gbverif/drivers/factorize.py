"""Driver for factorization (C02): factorize_1d / factorize_2d / GroupBy(...) and its derived views."""
import numpy as np
import pandas as pd
import polars as pl
import pyarrow as pa

from ..env import JUNK, NULL
from ..util import call
from . import api


def _codes_list(codes):
    a = np.asarray(codes)
    out = []
    for x in a.tolist():
        if isinstance(x, float):
            out.append(JUNK if x != x or x != int(x) else int(x))
        else:
            out.append(int(x))
    return out


def _labels_list(index, encs):
    if isinstance(index, pd.MultiIndex):
        return [[e.dec(x) for e, x in zip(encs, tup)] for tup in index.tolist()]
    vals = index.tolist() if hasattr(index, "tolist") else list(index)
    return [[encs[0].dec(x)] for x in vals]


def build_key_object(case):
    """keys in the requested container; returns (obj, encs)."""
    encs = [api.key_encoder(k) for k in case["kenc"]]
    cols = []
    cont = case.get("kcont", "np")
    for j, e in enumerate(encs):
        ids = [row[j] for row in case["keys"]]
        if cont in ("pa_null", "pl_null", "nullable"):   # real nulls are substituted below
            arr = e.enc([(0 if e.name == "bool" else 1) if i == NULL else i for i in ids])
        else:
            arr = e.enc(ids)
        if cont == "range":
            cols.append(pd.RangeIndex(case["range"][0], case["range"][0] + len(ids) * case["range"][1], case["range"][1]))
        elif cont == "pa_null":       # arrow array with real nulls
            cols.append(pa.array([None if i == NULL else x for i, x in zip(ids, np.asarray(arr).tolist())]))
        elif cont == "pl_null":
            cols.append(pl.Series("k", [None if i == NULL else x for i, x in zip(ids, np.asarray(arr).tolist())]))
        elif cont == "nullable":      # pandas nullable extension dtype (Int64 / boolean / string)
            dt = {"i64": "Int64", "bool": "boolean", "str": "string", "f64": "Float64"}[e.name]
            cols.append(pd.Series([None if i == NULL else x for i, x in zip(ids, np.asarray(arr).tolist())], dtype=dt))
        else:
            cols.append(api.wrap_container(arr, cont))
    return (cols[0] if len(cols) == 1 else cols), encs


def run_case(case):
    """case: keys kenc kcont sort T target in {f1d, f2d, gb}."""
    from groupby_lib import GroupBy, _verif
    from groupby_lib.groupby import factorization as F
    api.set_config(case)
    tr = {"keys": case["keys"], "kenc": case["kenc"], "sort": case["sort"], "target": case["target"],
          "cfg": {"T": case.get("T"), "kcont": str(case.get("kcont", "np"))}}
    try:
        keyobj, encs = build_key_object(case)
    except Exception as ex:
        raise RuntimeError(f"harness could not build keys: {type(ex).__name__}: {ex}")
    _verif.drain()
    try:
        if case["target"] == "f1d":
            codes, labels = call(F.factorize_1d, keyobj, sort=bool(case["sort"]))
            tr["codes"], tr["labels"] = _codes_list(codes), _labels_list(pd.Index(labels), encs)
        elif case["target"] == "f2d":
            codes, labels = call(F.factorize_2d, *keyobj, sort=bool(case["sort"]))
            tr["codes"], tr["labels"] = _codes_list(codes), _labels_list(labels, encs)
        else:
            gb = call(GroupBy, keyobj, sort=bool(case["sort"]))
            tr["chunked"] = int(bool(gb.key_is_chunked))
            tr["ngroups"] = int(gb.ngroups)
            try:       # derived view of the codes: is there a null-key row?  (read before and after the codes are touched below)
                tr["hasnull"] = int(bool(gb.has_null_keys))
                tr["nrows"] = int(len(gb))
            except Exception as ex:
                tr["hasnull"], tr["nrows"], tr["hasnull_exc"] = -1, -1, f"{type(ex).__name__}: {ex}"[:120]
            n = len(case["keys"])
            labels_idx = gb.result_index
            tr["labels"] = _labels_list(labels_idx, encs)
            variant = case.get("view", "ikey")
            if variant == "ikey":
                # raw codes: public for contiguous keys; through the (private) pointer tables when chunked
                ik = gb.group_ikey
                if gb.key_is_chunked:
                    ptrs = getattr(gb, "_group_key_pointers", None)
                    chunks = [np.asarray(c.to_numpy(zero_copy_only=False)) for c in ik.chunks]
                    flat = []
                    for ci, ch in enumerate(chunks):
                        for k in ch.tolist():
                            k = int(k)
                            flat.append(-1 if k < 0 else (int(ptrs[ci][k]) if ptrs is not None else k))
                    tr["codes"] = flat
                else:
                    tr["codes"] = _codes_list(ik)
                tr["sizes"] = [int(x) for x in np.asarray(gb.key_count).tolist()]
            else:
                # public derived views only: groups -> logical codes, key_count
                groups = gb.groups
                lab_pos = {tuple(l): j for j, l in enumerate(tr["labels"])}
                codes = [-1] * n
                glabels, grows = [], []
                for lab, rows in groups.items():
                    l = [e.dec(x) for e, x in zip(encs, lab)] if isinstance(lab, tuple) and len(encs) > 1 else [encs[0].dec(lab)]
                    rows = [int(r) for r in np.asarray(rows).tolist()]
                    glabels.append(l)
                    grows.append(rows)
                    for r in rows:
                        if 0 <= r < n:
                            codes[r] = lab_pos.get(tuple(l), JUNK)
                tr["codes"], tr["glabels"], tr["grows"] = codes, glabels, grows
                tr["sizes"] = [int(x) for x in np.asarray(gb.key_count).tolist()]
    except Exception as ex:
        tr.update(out="raise", exc=type(ex).__name__, msg=str(ex)[:160], codes=[], labels=[])
        return tr
    tr["out"] = "ok"
    tr["events"] = sorted({e["e"] + ":" + str(e.get("cutoff", "")) for e in _verif.drain()})
    return tr


def run_scaled_multikey(case):
    """several keys whose label counts make the mixed-radix weights cross 2^31 / 2^32: case = L (labels per trailing key), nkeys,
    target f2d|gb.  Rows: the diagonal (0, i, .., i) for every i < L (so that every trailing key really has L labels) plus the
    corner and unit tuples, one of them with a null component.  The trace carries only the PROBE rows (corners, units, a sample
    of the diagonal) with their codes and the label found at each code; the number of groups is known by construction."""
    from groupby_lib import GroupBy
    from groupby_lib.groupby import factorization as F
    L, nk = case["L"], case["nkeys"]
    diag = [(0,) + (i,) * (nk - 1) for i in range(L)]
    m = L - 1
    corners = [(1,) + (0,) * (nk - 1), (1,) + (m,) * (nk - 1), (1, 0) + (m,) * (nk - 2), (1, m) + (0,) * (nk - 2), (0, 1) + (0,) * (nk - 2),
               (0, 0) + (1,) * (nk - 2), (1, 1) + (1,) * (nk - 2), (0, m) + (0,) * (nk - 2), (1,) + (m // 2,) * (nk - 1), (1, m // 2 + 1) + (m // 2,) * (nk - 2)]
    rows = diag + corners + corners[:3]          # (the first three corners twice: equal keys, equal codes)
    cols = [np.array([r[j] for r in rows], dtype=np.int64) for j in range(nk)]
    nullrow = len(rows)
    cols = [np.append(c, 0).astype(float) if j == nk - 1 else np.append(c, 0) for j, c in enumerate(cols)]
    cols[nk - 1][nullrow] = np.nan                # one row with a null in the last component
    probe = sorted(set(list(range(0, L, max(1, L // 40))) + list(range(L, len(rows) + 1)) + [0, 1, L - 1]))
    tr = {"probe": 1, "L": L, "nkeys": nk, "target": case["target"], "keys": [], "codes": [], "labels_at": [], "ngroups": -1,
          "expected_ngroups": len(set(rows)), "cfg": {"L": L, "nkeys": nk}}
    try:
        if case["target"] == "f2d":
            codes, labels = call(F.factorize_2d, *cols)
            codes = np.asarray(codes)
            lab = labels
        else:
            gb = call(GroupBy, cols)
            codes = np.asarray(gb.group_ikey)
            lab = gb.result_index
        tr["ngroups"] = int(len(lab))
        for r in probe:
            key = [NULL if (isinstance(c[r], float) and c[r] != c[r]) else int(c[r]) for c in cols]
            code = int(codes[r])
            tr["keys"].append(key)
            tr["codes"].append(code)
            if 0 <= code < len(lab):
                tup = lab[code]
                tup = tup if isinstance(tup, tuple) else (tup,)
                tr["labels_at"].append([NULL if (isinstance(x, float) and x != x) else int(x) for x in tup])
            else:
                tr["labels_at"].append([JUNK] * nk if code != -1 else [NULL] * nk)
        tr["out"] = "ok"
    except Exception as ex:
        tr.update(out="raise", exc=type(ex).__name__, msg=str(ex)[:200])
    return tr
