"""Drivers for C20: nanops reducers, nb_dot, bools_to_categorical, pretty_cut."""
import math
import re

import numpy as np
import pandas as pd
import polars as pl

from ..abstract import to_rat
from ..env import JUNK, NONE, NULL
from ..util import call


def _dec(x):
    if x is None or (isinstance(x, float) and math.isnan(x)):
        return NULL
    try:
        if float(x) == int(x) and abs(int(x)) < 10 ** 6:
            return int(x)
    except Exception:
        pass
    return JUNK


def run_nan(case):
    """case: fn sum|mean|min|max|var|std|count, arr (abstract), t (threads), dtype f64|i64, ddof, axis."""
    from groupby_lib import nanops
    fn, t = case["fn"], case["t"]
    dt = case.get("dtype", "f64")
    a = np.array([np.nan if v == NULL else float(v) for v in case["arr"]]) if dt == "f64" else np.array(case["arr"], dtype=np.int64)
    tr = {"kind": "nan", "fn": fn, "arr": case["arr"], "t": t, "cfg": {"dtype": dt}}
    f = {"sum": nanops.nansum, "mean": nanops.nanmean, "min": nanops.nanmin, "max": nanops.nanmax, "var": nanops.nanvar, "std": nanops.nanstd}.get(fn)
    try:
        if fn == "count":
            r = call(nanops.count, a)
            tr["t"] = 1
        elif fn in ("var", "std"):
            tr["ddof"] = case.get("ddof", 1)
            r = call(f, a, n_threads=t, ddof=tr["ddof"])
        else:
            r = call(f, a, n_threads=t)
    except Exception as ex:
        tr.update(out="raise", exc=type(ex).__name__, msg=str(ex)[:150], res=NULL)
        return tr
    tr["out"] = "ok"
    r = float(np.asarray(r).astype(float))
    if fn in ("mean", "var"):
        tr["res"] = to_rat(r, max_den=10 ** 6)
    elif fn == "std":
        tr["res"] = to_rat(r * r, max_den=10 ** 6)
    else:
        tr["res"] = _dec(r)
    return tr


def run_nan2d(case):
    """2-D sum/min/max along an axis: one 'nan' trace per column / row (t = 1 per line as the library does)."""
    from groupby_lib import nanops
    fn, axis = case["fn"], case["axis"]
    m = np.array([[np.nan if v == NULL else float(v) for v in row] for row in case["mat"]])
    f = {"sum": nanops.nansum, "min": nanops.nanmin, "max": nanops.nanmax}[fn]
    lines = [list(col) for col in zip(*case["mat"])] if axis == 0 else [list(r) for r in case["mat"]]
    try:
        r = np.asarray(call(f, m, axis=axis, n_threads=case.get("t", 1)), dtype=float)
    except Exception as ex:
        return [{"kind": "nan", "fn": fn, "arr": lines[0] if lines else [], "t": 1, "out": "raise", "exc": type(ex).__name__, "msg": str(ex)[:150], "res": NULL, "cfg": {"axis": axis}}]
    out = []
    for line, x in zip(lines, r.tolist()):
        out.append({"kind": "nan", "fn": fn, "arr": line, "t": 1, "out": "ok", "res": _dec(x), "cfg": {"axis": axis, "t": case.get("t", 1), "two_d": 1}})
    if len(r) != len(lines):
        out.append({"kind": "nan", "fn": fn, "arr": [], "t": 1, "out": "raise", "exc": "shape", "res": NULL, "cfg": {"axis": axis}})
    return out


def run_dot(case):
    from groupby_lib.util import nb_dot
    a = np.array(case["a"], dtype=case.get("dtype", "int64")).reshape(len(case["a"]), len(case["b"]))
    b = np.array(case["b"], dtype=case.get("dtype", "int64"))
    cont = case.get("cont", "np")
    obj = a if cont == "np" else pd.DataFrame(a, columns=[f"c{j}" for j in range(a.shape[1])]) if cont == "pd" else pl.DataFrame({f"c{j}": a[:, j] for j in range(a.shape[1])})
    tr = {"kind": "dot", "a": case["a"], "b": case["b"], "cfg": {"cont": cont, "dtype": case.get("dtype", "int64")}}
    try:
        r = call(nb_dot, obj, b)
    except Exception as ex:
        tr.update(out="raise", exc=type(ex).__name__, msg=str(ex)[:150], res=[])
        return tr
    tr["out"] = "ok"
    tr["res"] = [_dec(x) for x in np.asarray(r, dtype=float).tolist()]
    return tr


def run_bools(case):
    from groupby_lib.util import bools_to_categorical
    rows = case["rows"]
    ncol = len(rows[0])
    cols = [f"col{j + 1}" for j in range(ncol)]
    df = pd.DataFrame(np.array(rows, dtype=bool).reshape(len(rows), ncol), columns=cols)
    tr = {"kind": "bools", "rows": rows, "cfg": {"sep": case.get("sep", " & ")}}
    try:
        r = call(bools_to_categorical, df, sep=case.get("sep", " & "))
    except Exception as ex:
        tr.update(out="raise", exc=type(ex).__name__, msg=str(ex)[:150], labelsets=[])
        return tr
    tr["out"] = "ok"
    sets = []
    for lab in r.astype(str).tolist():
        if lab == "None":
            sets.append([])
        else:
            sets.append([cols.index(p) + 1 if p in cols else JUNK for p in lab.split(case.get("sep", " & "))])
    tr["labelsets"] = sets
    return tr


_NUM = r"-?\d+(?:\.\d+)?"


def run_cut(case):
    from groupby_lib.util import pretty_cut
    isint = case["isint"]
    vals = case["vals"]
    x = np.array(vals, dtype=np.int64) if isint else np.array([np.nan if v == NULL else float(v) for v in vals])
    bins = list(case["bins"]) if isint else [float(b) for b in case["bins"]]
    tr = {"kind": "cut", "vals": vals, "bins": case["bins"], "isint": int(isint), "cfg": {"series": case.get("series", 0)}}
    try:
        r = call(pretty_cut, pd.Series(x) if case.get("series") else x, bins)
    except Exception as ex:
        tr.update(out="raise", exc=type(ex).__name__, msg=str(ex)[:150], assigned=[])
        return tr
    tr["out"] = "ok"
    labs = (r.astype(object).tolist() if isinstance(r, pd.Series) else [None if c == -1 else r.categories[c] for c in r.codes])
    assigned = []
    for lab in labs:
        if lab is None or (isinstance(lab, float) and math.isnan(lab)):
            assigned.append([NONE, NONE, 0])
            continue
        lab = str(lab)
        m1 = re.fullmatch(rf" <= ({_NUM})", lab)
        m2 = re.fullmatch(rf" > ({_NUM})", lab)
        m3 = re.fullmatch(rf"({_NUM}) - ({_NUM})", lab)
        m4 = re.fullmatch(rf"({_NUM})", lab)
        num = (lambda s: int(float(s)) if float(s) == int(float(s)) else JUNK)
        if m1:
            assigned.append([NONE, num(m1.group(1)), 1])
        elif m2:
            # " > b": for integers the first value of the bin is b + 1, for floats the bound is exclusive
            assigned.append([num(m2.group(1)) + (1 if isint else 0), NONE, 1])
        elif m3:
            assigned.append([num(m3.group(1)), num(m3.group(2)), 1])
        elif m4:
            assigned.append([num(m4.group(1)), num(m4.group(1)), 1])
        else:
            assigned.append([JUNK, JUNK, 1])
    tr["assigned"] = assigned
    return tr
