"""Driver for C17: the pandas-style facade vs the core engine vs pandas, all against the same specification."""
import contextlib
import io

import numpy as np
import pandas as pd

from ..abstract import EMB, to_rat
from ..env import JUNK, NULL
from ..util import call
from . import api

STR = api.STR
AGG = ["sum", "mean", "min", "max", "count", "size", "std", "var", "first", "last"]
CUM = ["cumsum", "cummax", "cummin", "cumcount"]
ROLL = ["sum", "mean", "min", "max"]
_installed = False


def _install():
    global _installed
    if not _installed:
        from groupby_lib.groupby.monkey_patch import install_groupby_fast
        with contextlib.redirect_stdout(io.StringIO()):
            install_groupby_fast()
        _installed = True


def _kcol(ids, kind):
    if kind == "cat":          # categories a..d declared in order, "d" never used
        return pd.Categorical.from_codes([-1 if i == NULL else i - 1 for i in ids], categories=[STR[c] for c in (1, 2, 3, 4)])
    if kind == "str":
        return np.array([None if i == NULL else STR[i] for i in ids], dtype=object)
    return np.array([np.nan if i == NULL else float(i) for i in ids])


def _kdec(x, kind):
    if x is None or (isinstance(x, float) and x != x) or x is pd.NA:
        return NULL
    if kind in ("str", "cat"):
        return api.RSTR.get(x, JUNK)
    return int(x) if float(x) == int(x) else JUNK


def _index(kind, n, rng_seed):
    import random
    r = random.Random(rng_seed)
    if kind == "default":
        return pd.RangeIndex(n)
    if kind == "shuffled":
        x = list(range(100, 100 + n))
        r.shuffle(x)
        return pd.Index(x)
    if kind == "dups":
        return pd.Index([r.randrange(0, max(1, n // 2 + 1)) for _ in range(n)])
    if kind == "strings":
        x = [f"r{j}" for j in range(n)]
        r.shuffle(x)
        return pd.Index(x)
    if kind == "multi":
        return pd.MultiIndex.from_arrays([[r.randrange(2) for _ in range(n)], list(range(n))], names=["i0", "i1"])
    raise ValueError(kind)


def build_frame(case):
    """returns (obj, by/level kwargs, key columns (abstract), key kinds, value column names)."""
    n = len(case["k1"])
    kk = case.get("kkinds", ["str", "f64"])
    vals = {name: np.array([np.nan if v == NULL else float(v) for v in col]) for name, col in case["vcols"].items()}
    byk = case["by"]
    keys = [case["k1"]] + ([case["k2"]] if case.get("k2") is not None else [])
    index = _index(case.get("index", "default"), n, case.get("seed", 0))
    data = {}
    kwargs = {}
    if byk == "col":
        data["k1"] = _kcol(keys[0], kk[0])
        kwargs = {"by": "k1"}
        keys = keys[:1]
    elif byk == "cols":
        data["k1"] = _kcol(keys[0], kk[0])
        data["k2"] = _kcol(keys[1], kk[1])
        kwargs = {"by": ["k1", "k2"]}
    elif byk == "array":
        kwargs = {"by": _kcol(keys[0], kk[0])}
        keys = keys[:1]
    elif byk == "series":
        # a free-standing key Series on the frame's own index whose NAME is that of a value column (a key derived from a column
        # keeps the column's name): the column is a value column all the same -- the key is not that column
        kwargs = {"by": ("series", _kcol(keys[0], kk[0]))}
        keys = keys[:1]
    elif byk == "level":
        index = pd.Index(_kcol(keys[0], kk[0]), name="lv")
        kwargs = {"level": 0}
        keys = keys[:1]
    elif byk == "mixed":
        data["k1"] = _kcol(keys[0], kk[0])
        kwargs = {"by": ["k1", _kcol(keys[1], kk[1])]}
    if case.get("method") == "iter":
        # row identity for the iteration check: every value column *is* the row number, so that
        # the rows of a sub-frame / sub-series are identified whatever was selected
        vals = {name: np.arange(n, dtype=float) for name in vals}
    data.update(vals)
    df = pd.DataFrame(data, index=index)
    vnames = list(vals)
    if isinstance(kwargs.get("by"), tuple) and kwargs["by"][0] == "series":
        kwargs = {"by": pd.Series(kwargs["by"][1], index=index, name=vnames[0])}
    obj = df
    if case.get("series"):
        obj = df[vnames[0]]
        vnames = vnames[:1]
        if byk in ("col", "cols", "mixed"):
            raise ValueError("a Series has no key columns")
    return obj, kwargs, keys, kk[:len(keys)], vnames


def selected_names(case, vnames):
    if case.get("select") == "withkey" and not case.get("series"):
        return ["k1", vnames[0]]
    if case.get("series") or case.get("select") == "one":
        return vnames[:1]
    if case.get("select") == "last":
        return vnames[-1:]
    return list(vnames)


def _select(g, case, vnames):
    sel = case.get("select")
    if sel is None or case.get("series"):
        return g, vnames
    if sel == "one":
        return g[vnames[0]], vnames[:1]
    if sel == "withkey":
        return g[["k1", vnames[0]]], ["k1", vnames[0]]
    return g[[vnames[-1]]], vnames[-1:]


def _col_traces(kind, impl, case, keys, kkinds, labels_idx, columns, op, extra):
    """one per-column trace for the common specification."""
    out = []
    krows = [[keys[j][i] for j in range(len(keys))] for i in range(len(keys[0]))]
    for name, arr in columns.items():
        t = dict(extra)
        t.update(impl=impl, fam=kind, column=name, keys_rows=krows)
        t["vals"] = case["vcols"].get(name, [0] * len(krows))
        t["_arr"] = arr
        out.append(t)
    return out


DELEG = ["d_median", "d_quantile", "d_nth", "d_head", "d_tail", "d_agg_str", "d_agg_func", "d_apply", "d_ema",
         "d_sum_mask", "d_mean_mask", "d_count_mask", "d_size_mask", "d_first_mask", "d_ngroups"]


def _same_frames(a, b, names):
    """facade result vs core result on the selected columns: same labels, same column names, same numbers."""
    fa = a.to_frame(name=names[0]) if isinstance(a, pd.Series) else a
    fb = b.to_frame(name=names[0]) if isinstance(b, pd.Series) else b
    if not isinstance(fa, pd.DataFrame) or not isinstance(fb, pd.DataFrame):
        return int(fa == fb) if np.isscalar(fa) and np.isscalar(fb) else 0
    if list(map(str, fa.columns)) != list(map(str, fb.columns)) or fa.shape != fb.shape:
        return 0
    if [repr(x) for x in fa.index.tolist()] != [repr(x) for x in fb.index.tolist()]:
        return 0
    return int(np.array_equal(np.asarray(fa, dtype=float), np.asarray(fb, dtype=float), equal_nan=True))


def _delegation_trace(case, meta, obj, keys, kkinds, vnames, allcols, facade):
    """C17, delegation clause: the facade method returns what the core grouping returns for the selected value columns
    (the core operations themselves are judged by C10 / C15 / C16 / C05)."""
    from groupby_lib import GroupBy
    meth = case["method"]
    n = len(keys[0])
    rng = np.random.default_rng(case.get("seed", 0))
    mask = rng.random(n) < 0.6
    narg = int(rng.integers(0, 3))
    t = dict(meta, kind="deleg", impl="facade", method=meth, expected=[], got=[], eq=0)
    try:
        g, sel_names = facade()
        f = {"d_median": lambda: g.median(), "d_quantile": lambda: g.quantile([0.25, 0.75]), "d_nth": lambda: g.nth(narg - 1 if narg else 0),
             "d_head": lambda: g.head(narg), "d_tail": lambda: g.tail(narg), "d_agg_str": lambda: g.agg("max"), "d_agg_func": lambda: g.agg(np.nanmax),
             "d_apply": lambda: g.apply(np.nansum), "d_ema": lambda: g.ema(alpha=0.5),
             "d_sum_mask": lambda: g.sum(mask=mask), "d_mean_mask": lambda: g.mean(mask=mask), "d_count_mask": lambda: g.count(mask=mask),
             "d_size_mask": lambda: g.size(mask=mask), "d_first_mask": lambda: g.first(mask=mask), "d_ngroups": lambda: g.ngroups}[meth]
        rf = call(f)
        fexc = None
    except Exception as ex:
        rf, fexc = None, ex
    try:
        karrs = [_kcol(k, kd) for k, kd in zip(keys, kkinds)]
        gb = call(GroupBy, karrs[0] if len(karrs) == 1 else karrs)
        sel_names = selected_names(case, vnames)
        vals = pd.DataFrame({nm: np.array([np.nan if v == NULL else float(v) for v in allcols[nm]]) for nm in sel_names}, index=obj.index)
        if case.get("series") or case.get("select") == "one":
            vals = vals[sel_names[0]]
        c = {"d_median": lambda: gb.median(vals), "d_quantile": lambda: gb.quantile(vals, q=[0.25, 0.75]), "d_nth": lambda: gb.nth(vals, narg - 1 if narg else 0),
             "d_head": lambda: gb.head(vals, narg), "d_tail": lambda: gb.tail(vals, narg), "d_agg_str": lambda: gb.max(vals), "d_agg_func": lambda: gb.apply(vals, np.nanmax),
             "d_apply": lambda: gb.apply(vals, np.nansum), "d_ema": lambda: gb.ema(vals, alpha=0.5),
             "d_sum_mask": lambda: gb.sum(vals, mask=mask), "d_mean_mask": lambda: gb.mean(vals, mask=mask), "d_count_mask": lambda: gb.count(vals, mask=mask),
             "d_size_mask": lambda: gb.size(mask=mask), "d_first_mask": lambda: gb.first(vals, mask=mask), "d_ngroups": lambda: gb.ngroups}[meth]
        rc = call(c)
    except Exception as ex:
        # the core engine itself refuses this call (e.g. apply with no group at all): not a statement about the facade,
        # provided the facade did not invent a result
        t.update(out=("core_raise" if fexc is not None else "raise"), exc=type(ex).__name__, msg=("core raises, facade returns: " if fexc is None else "") + str(ex)[:140])
        return t
    if fexc is not None:
        t.update(out="raise", exc=type(fexc).__name__, msg=str(fexc)[:160])
        return t
    fr = rf.to_frame(name=sel_names[0]) if isinstance(rf, pd.Series) else rf
    t["out"] = "ok"
    if isinstance(fr, pd.DataFrame) and meth not in ("d_size_mask",):
        t["expected"], t["got"] = list(sel_names), [str(x) for x in fr.columns]
    t["eq"] = _same_frames(rf, rc, sel_names if meth != "d_size_mask" else ["size"])
    return t


def run_case(case):
    """returns a list of traces: facade / core / pandas projections of one (frame, by, method)."""
    from groupby_lib import GroupBy
    _install()
    api.set_config(case)
    obj, kw, keys, kkinds, vnames = build_frame(case)
    meth = case["method"]
    n = len(keys[0])
    krows = [[keys[j][i] for j in range(len(keys))] for i in range(n)]
    rank = [sorted({r[j] for r in krows if r[j] != NULL}) for j in range(len(keys))]
    traces = []
    meta = {"cfg": {k: case.get(k) for k in ("by", "index", "method", "select", "series", "kkinds", "seed", "T", "roll")}, "k1": case["k1"], "k2": case.get("k2"), "vcols": case["vcols"]}

    allcols = dict(case["vcols"])
    if case.get("select") == "withkey":
        allcols["k1"] = case["k1"]          # a key column selected as a value column is aggregated like any other

    # rolling window and min_periods as given to .rolling(): [window, min_periods or None]; default rolling(2)
    RW, RMP = case.get("roll") or [2, None]

    def labels_of(idx):
        if isinstance(idx, pd.MultiIndex):
            return [[_kdec(x, k) for x, k in zip(t, kkinds)] for t in idx.tolist()]
        return [[_kdec(x, kkinds[0])] for x in idx.tolist()]

    def agg_traces(impl, res, sel_names):
        fr = res.to_frame(name=sel_names[0] if (meth != "size") else "size") if isinstance(res, pd.Series) else res
        cols = [str(c) for c in fr.columns]
        shape = dict(meta, kind="cols", impl=impl, expected=(["size"] if meth == "size" else list(sel_names)), got=cols, out="ok")
        out = [shape]
        labs = labels_of(fr.index)
        for c in fr.columns:
            a = np.asarray(fr[c], dtype=float)
            op = meth
            if op in ("std", "var"):
                res_ = [to_rat(x * x if op == "std" else x, max_den=10 ** 6) for x in a.tolist()]
            elif op == "mean":
                res_ = [to_rat(x) for x in a.tolist()]
            else:
                res_ = [NULL if x != x else (int(x) if x == int(x) else JUNK) for x in a.tolist()]
            t = dict(meta, kind="core", impl=impl, op=op, keys=krows, vals=(allcols[str(c)] if str(c) in allcols else [1] * n), mask={"k": "none"}, tf=0, oo=1, sort=1,
                     rank=rank, seed=[], nonull=0, out="ok", labels=labs, res=res_)
            if op in ("std", "var"):
                t["ddof"] = 1
            out.append(t)
        return out

    def row_traces(impl, res, sel_names, fam, op, W=None, judge_nonnull_only=False):
        fr = res.to_frame(name=sel_names[0] if sel_names else "cumcount") if isinstance(res, pd.Series) else res
        cols = [str(c) for c in fr.columns]
        out = [dict(meta, kind="cols", impl=impl, expected=(list(sel_names) if op != "cumcount" else cols[:1]), got=cols, out="ok")]
        for c in fr.columns:
            a = np.asarray(fr[c], dtype=float)
            vals = allcols.get(str(c), [1] * n)
            k1 = [(NULL if NULL in r else (r[0] if len(r) == 1 else r[0] * 10 + r[1])) for r in krows]     # one abstract group id per row
            ids = sorted({k for k in k1 if k != NULL})
            k1 = [NULL if k == NULL else ids.index(k) + 1 for k in k1]
            if len(ids) > 5:
                continue
            sel = [1] * n
            if judge_nonnull_only:        # pandas is compared only at rows holding a non-null value
                sel_j = [int(v != NULL) for v in vals]
            else:
                sel_j = sel
            if op == "mean":
                res_ = [to_rat(x) for x in a.tolist()]
            else:
                res_ = [NULL if x != x else (int(x) if x == int(x) else JUNK) for x in a.tolist()]
            # unjudged rows are turned into null-key rows for the trace spec? no: marked through 'judge'
            t = dict(meta, kind=fam, impl=impl, op=op, keys=k1, vals=vals, sel=sel, res=res_, out="ok", judge=sel_j)
            if W:
                t.update(W=W, minp=(W if RMP is None else RMP))
            out.append(t)
        return out

    # ---------------------------------------------------------------- facade
    def facade():
        g = call(obj.groupby_fast, **kw)
        g, sel_names = _select(g, case, vnames)
        return g, sel_names

    if meth.startswith("d_"):
        return [_delegation_trace(case, meta, obj, keys, kkinds, vnames, allcols, facade)]

    try:
        g, sel_names = facade()
        if meth in AGG:
            traces += agg_traces("facade", call(getattr(g, meth)), sel_names)
        elif meth in CUM:
            traces += row_traces("facade", call(getattr(g, meth)), sel_names if meth != "cumcount" else [], "cum", meth)
        elif meth.startswith("rolling_"):
            traces += row_traces("facade", call(getattr(g.rolling(RW) if RMP is None else g.rolling(RW, min_periods=RMP), meth[8:])), sel_names, "roll", meth[8:], W=RW)
        elif meth == "iter":
            glabels, grows = [], []
            posmap = {}
            for lab, sub in g:
                l = [_kdec(x, k) for x, k in zip(lab, kkinds)] if isinstance(lab, tuple) else [_kdec(lab, kkinds[0])]
                # rows are identified by a value column, which holds the row number
                rid = sub if isinstance(sub, pd.Series) else sub[sel_names[0]]
                glabels.append(l)
                grows.append([int(x) for x in rid.tolist()])
            lab_pos = {tuple(l): j for j, l in enumerate(glabels)}
            codes = [-1] * n
            for l, rows in zip(glabels, grows):
                for r in rows:
                    if 0 <= r < n:
                        codes[r] = lab_pos[tuple(l)]
            traces.append(dict(meta, kind="iter", impl="facade", keys=krows, glabels=glabels, grows=grows, codes=codes, labels=glabels, out="ok"))
    except Exception as ex:
        traces.append(dict(meta, kind="cols", impl="facade", out="raise", exc=type(ex).__name__, msg=str(ex)[:160], expected=[], got=[]))

    # ---------------------------------------------------------------- core engine on the selected value columns
    try:
        karrs = [_kcol(k, kd) for k, kd in zip(keys, kkinds)]
        gb = call(GroupBy, karrs[0] if len(karrs) == 1 else karrs)
        sel_names = selected_names(case, vnames)
        vals_obj = pd.DataFrame({nm: np.array([np.nan if v == NULL else float(v) for v in allcols[nm]]) for nm in sel_names}, index=obj.index)
        if meth in AGG:
            r = call(gb.size) if meth == "size" else call(getattr(gb, meth), vals_obj)
            traces += agg_traces("core", r, sel_names)
        elif meth in ("cumsum", "cummax", "cummin"):
            traces += row_traces("core", call(getattr(gb, meth), vals_obj), sel_names, "cum", meth)
        elif meth == "cumcount":
            traces += row_traces("core", call(gb.cumcount), [], "cum", meth)
        elif meth.startswith("rolling_"):
            traces += row_traces("core", call(getattr(gb, meth), vals_obj, window=RW, min_periods=(RW if RMP is None else RMP)), sel_names, "roll", meth[8:], W=RW)
    except Exception as ex:
        traces.append(dict(meta, kind="cols", impl="core", out="raise", exc=type(ex).__name__, msg=str(ex)[:160], expected=[], got=[]))

    # ---------------------------------------------------------------- pandas
    try:
        pg = obj.groupby(**kw)
        if not case.get("series") and case.get("select") is not None:
            pg = pg[vnames[0]] if case["select"] == "one" else pg[["k1", vnames[0]]] if case["select"] == "withkey" else pg[[vnames[-1]]]
        if meth in AGG:
            r = pg.size() if meth == "size" else getattr(pg, meth)()
            if meth != "size" and not isinstance(r, pd.Series):
                r = r[[c for c in r.columns if c in allcols]]
            traces += agg_traces("pandas", r, sel_names if meth != "size" else sel_names)
        elif meth in ("cumsum", "cummax", "cummin"):
            r = getattr(pg, meth)()
            if not isinstance(r, pd.Series):
                r = r[[c for c in r.columns if c in allcols]]
            traces += row_traces("pandas", r, sel_names, "cum", meth, judge_nonnull_only=True)
        elif meth == "cumcount":
            traces += row_traces("pandas", pg.cumcount(), [], "cum", meth)
    except Exception as ex:
        pass          # pandas refusing an input is not a statement about the library
    return traces
