"""Drivers for C03: forced pool schedules and scaled replays at the real switch-over points."""
import itertools

import numpy as np
import pandas as pd

from .. import sched
from ..abstract import EMB, to_rat
from ..env import NULL
from ..util import call
from . import api


class _TaskError(Exception):
    def __init__(self, idx):
        super().__init__(f"task {idx}")
        self.idx = idx


def run_pool(case):
    """case: n tasks, order (permutation, completion order to force), raises (0-based indices of raising tasks),
    reduce (1: through util.parallel_reduce with list-valued partial results)."""
    import contextlib
    import io
    from groupby_lib.util import parallel_map, parallel_reduce
    n, order = case["n"], list(case["order"])
    raises = sorted(case.get("raises") or [])
    red = bool(case.get("reduce"))

    def task(i):          # i = 1-based task number
        if i - 1 in raises:
            raise _TaskError(i - 1)
        return [100 + i] if red else 100 + i

    sched.install()
    tr = {"n": n, "want": order, "raises": raises, "results": [], "reduced": [], "exc": -1, "reduce": int(red)}
    with sched.forced(lambda k, o=order: o if k == len(o) else None) as log:
        try:
            with contextlib.redirect_stdout(io.StringIO()):       # ("Item at index ... generated an exception")
                if red:
                    out = parallel_reduce(task, "sum", [(i + 1,) for i in range(n)])
                    tr["reduced"] = [int(x) for x in out]
                    tr["results"] = [int(x) for x in out] if not raises else []    # (the gathered list itself is not visible)
                else:
                    out = parallel_map(task, [(i + 1,) for i in range(n)])
                    tr["results"] = [int(x) for x in out]
            tr["outcome"] = "returned"
        except _TaskError as ex:
            tr["outcome"], tr["exc"] = "raised", ex.idx
        except Exception as ex:       # any other exception is not a behaviour of the pool model
            tr["outcome"], tr["exc"], tr["msg"] = "crash", -1, f"{type(ex).__name__}: {ex}"[:200]
    obs = log[0]["observed"] if log else ([0] if n == 1 else [])
    if tr["outcome"] == "raised" and tr["exc"] in obs:
        obs = obs[:obs.index(tr["exc"]) + 1]          # what completed afterwards (the executor drains) is not met by the loop
    tr["order"] = obs
    tr["forced"] = int(bool(log) and log[0]["order"] == order)
    return tr


def run_api_forced(case):
    """a real threaded GroupBy call under a forced completion order of its outermost parallel_map."""
    order = case["order"]
    with sched.forced(lambda k, o=order: (o if k == len(o) else list(range(k))[::-1])) as log:
        tr = api.run_reduce(case)
    tr["schedules"] = [[l["tasks"], l["order"]] for l in log][:4]
    return tr


def run_scaled(case):
    """the small input blown up: every row repeated `mult` times, REAL thresholds (no override)."""
    from groupby_lib import GroupBy, _verif
    from groupby_lib.groupby import core
    core.THRESHOLD_FOR_CHUNKED_FACTORIZE = 1_000_000
    _verif.ROWS_PER_THREAD = 1_000_000
    m = case["mult"]
    emb = EMB[case["emb"]]
    e = api.key_encoder(case["kenc"][0])
    ids = [k[0] for k in case["keys"]]
    karr = np.repeat(e.enc(ids), m)
    varr = np.repeat(emb.enc(case["vals"]), m)
    if case.get("kcont") == "pachunk":
        import pyarrow as pa
        cuts = np.linspace(0, len(karr), case.get("nchunks", 3) + 1).astype(int)
        karr = pa.chunked_array([pa.array(karr[a:b]) for a, b in zip(cuts[:-1], cuts[1:])])
    op = case["op"]
    tr = {k: case[k] for k in ("op", "keys", "vals", "tf", "oo", "sort", "emb", "kenc")}
    tr.update(mask={"k": "none"}, mult=m, nonull=int(emb.nonull), cfg={"rows": len(ids) * m, "kcont": case.get("kcont")})
    encs = [e]
    tr["rank"], tr["seed"] = api.key_meta(case, encs)
    _verif.drain()
    try:
        gb = call(GroupBy, karr, sort=bool(case["sort"]))
        out = call(gb.size) if op == "size" else call(getattr(gb, op), varr)
        tr["chunked"] = int(bool(gb.key_is_chunked))
    except Exception as ex:
        tr.update(out="raise", exc=type(ex).__name__, msg=str(ex)[:200], labels=[], res=[])
        return tr
    ev = _verif.drain()
    tr["events"] = sorted({x["e"] + ":" + str(x.get("kind", x.get("n_threads", ""))) for x in ev})
    tr["out"] = "ok"
    arr = out.to_numpy()
    if op in ("size", "count"):
        tr["res"] = [int(x) for x in arr.tolist()]
    elif op == "sum":
        tr["res"] = [int(round(float(x))) for x in arr.tolist()]
    elif op == "mean":
        tr["res"] = [to_rat(x) for x in arr.astype(float).tolist()]
    else:
        tr["res"] = emb.dec_arr(arr)
    tr["labels"] = [[e.dec(x)] for x in out.index.tolist()]
    return tr
