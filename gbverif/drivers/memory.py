"""Driver for C19: who writes which buffer.

One case = one grouping object (keys in some container) + a history of steps
  ["call", <method>]      call a public operation, keep its result
  ["mutate", i]           write through every writable array reachable from the i-th result (and pop a dict entry)
  ["corrupt", <cache>]    harness-side environment action: overwrite a cache of the grouping (binds the spec's Reads/Source tables)
After every step the driver observes, against a *fresh* grouping built from pristine copies of the inputs,
  dirty  : which buffers (inputs, logical codes/labels, filled caches) now differ from pristine
  alias  : which buffers the result is a writable alias of (np.shares_memory / identity with a cached object)
  eq     : whether the call returned what the fresh grouping returns for the pristine inputs.
"""
import copy
import random

import numpy as np
import pandas as pd
import polars as pl
import pyarrow as pa

from ..env import NULL
from ..util import call
from . import api
from .history import _Raised, _try


def _equal(a, b):
    """bit-exact equality of two outcomes (same type, dtypes, labels, names and values; same refusal)."""
    if isinstance(a, _Raised) or isinstance(b, _Raised):
        return isinstance(a, _Raised) and isinstance(b, _Raised) and a.kind == b.kind
    try:
        return type(a) is type(b) and snapshot(a) == snapshot(b)
    except Exception:
        return False


CLASS = {}
for _c, _names in {
    "reduce": ["sum", "mean", "min", "max", "first", "last", "count", "var", "std", "size", "ratio", "subset_ratio", "density"],
    "transform": ["sum_t", "mean_t", "max_t", "first_t", "count_t", "size_t"],
    "rowwise": ["cumsum", "cummin", "cummax", "cumcount", "shift", "diff", "ema", "rolling_sum", "rolling_mean", "rolling_min", "rolling_max", "nearby"],
    "layout": ["rolling_sum_g", "rolling_max_g", "ema_g", "ema_t_g"],
    "select": ["head", "tail", "nth", "head_i", "nth_i", "head_all", "tail_all", "head_all_i"],
    "apply": ["apply", "median", "quantile", "agg"],
    "groups": ["groups"], "keycount": ["key_count"], "counts": ["count_ikey", "count_ikey_m"],
    "margins": ["sum_margins", "mean_margins"], "timed": ["ema_t"], "factorize": ["factorize_1d", "factorize_2d"],
}.items():
    for _n in _names:
        CLASS[_n] = _c
METHODS = sorted(CLASS)
# instance attributes that hold each cache (whichever exists: cached_property stores under the property's name)
CACHE_ATTRS = {"counts": ["ikey_count"], "indexer": ["_group_sort_indexer"], "groups": ["groups", "_groups"], "keycount": ["key_count", "_key_count"]}


def _cache(gb, b):
    for a in CACHE_ATTRS[b]:
        if a in gb.__dict__:
            return a
    return None
VENCS = ["f64", "i64", "bool", "M8", "m8", "f32", "series_f64", "series_i64", "series_M8tz", "arrowseries", "pl", "pa", "pachunk", "frame", "list", "list_M8tz", "list_M8", "dict_m8"]
KCONT = ["np", "series", "index", "pl", "pa", "pachunk", "arrowseries"]


# ------------------------------------------------------------------ containers
def _values(venc, n, rng):
    base = [rng.choice([1, 2, 3, 5]) for _ in range(n)]
    f = np.array([float(x) for x in base])
    if n and venc not in ("i64", "bool", "series_i64"):
        f[rng.randrange(n)] = np.nan
    day0 = np.datetime64("2020-01-01", "ns")
    if venc == "f64":
        return f
    if venc == "f32":
        return f.astype(np.float32)
    if venc == "i64":
        return np.array(base, dtype=np.int64)
    if venc == "bool":
        return np.array([x % 2 == 1 for x in base])
    if venc == "M8":
        return np.array([day0 + np.timedelta64(x, "D") for x in base], dtype="datetime64[ns]")
    if venc == "m8":
        return np.array([np.timedelta64(x, "s") for x in base], dtype="timedelta64[ns]")
    if venc == "series_f64":
        return pd.Series(f, name="v", copy=False)
    if venc == "series_i64":
        return pd.Series(np.array(base, dtype=np.int64), name="v", copy=False)
    if venc == "series_M8tz":
        return pd.Series(pd.DatetimeIndex([pd.Timestamp("2020-01-01") + pd.Timedelta(days=x) for x in base]).tz_localize("Europe/Dublin"), name="v")
    if venc == "arrowseries":
        return pd.Series(pd.array(f, dtype=pd.ArrowDtype(pa.float64())), name="v")
    if venc == "pl":
        return pl.Series("v", f)
    if venc == "pa":
        return pa.array(np.nan_to_num(f, nan=4.0))
    if venc == "pachunk":
        g = np.nan_to_num(f, nan=4.0)
        return pa.chunked_array([pa.array(g[: n // 2]), pa.array(g[n // 2:])], type=pa.float64())
    if venc == "frame":
        return pd.DataFrame({"a": f, "b": np.array(base, dtype=np.int64)}, copy=False)
    if venc == "list":
        return [f, np.array(base, dtype=np.int64)]
    # collections the caller owns, holding a temporal column (the library converts those to integers internally)
    if venc == "list_M8tz":
        return [_values("series_M8tz", n, rng), f]
    if venc == "list_M8":
        return [_values("M8", n, rng), pd.Series(f, name="x")]
    if venc == "dict_m8":
        return {"d": _values("m8", n, rng), "x": f}
    raise ValueError(venc)


def _first_col(v):
    if isinstance(v, pd.DataFrame):
        return v.iloc[:, 0]
    if isinstance(v, list):
        return v[0]
    if isinstance(v, dict):
        return next(iter(v.values()))
    return v


def snapshot(x):
    """content of a caller-side object (bit-exact for NumPy data)."""
    if x is None or isinstance(x, (slice, int, float, str)):
        return repr(x)
    if isinstance(x, np.ndarray):
        return (x.dtype.str, x.shape, repr(x.tolist()) if x.dtype == object else x.tobytes())
    if isinstance(x, pd.Categorical):
        return ("cat", np.asarray(x.codes).tobytes(), repr(list(x.categories)), bool(x.ordered))
    if isinstance(x, pd.Series):
        return ("series", str(x.dtype), repr(x.name), snapshot(x.array), repr(list(x.index)))
    if isinstance(x, pd.Index):
        return ("index", str(x.dtype), repr(x.name), repr(list(x)))
    if isinstance(x, pd.DataFrame):
        return ("frame", repr(list(x.columns)), repr(list(x.index)), tuple(snapshot(x.iloc[:, j].array) for j in range(x.shape[1])))
    if isinstance(x, pd.api.extensions.ExtensionArray):
        nd = getattr(x, "_ndarray", None)
        if isinstance(nd, np.ndarray):
            return ("ea", str(x.dtype), nd.tobytes())
        return ("ea", str(x.dtype), repr(list(x)))
    if isinstance(x, (pa.Array, pa.ChunkedArray)):
        lens = [len(c) for c in x.chunks] if isinstance(x, pa.ChunkedArray) else [len(x)]
        return ("pa", str(x.type), lens, repr(x.to_pylist()))
    if isinstance(x, pl.Series):
        return ("pl", str(x.dtype), x.name, repr(x.to_list()))
    if isinstance(x, pl.DataFrame):
        return ("plframe", tuple(snapshot(x[c]) for c in x.columns))
    if isinstance(x, (list, tuple)):
        return tuple(snapshot(y) for y in x)
    if isinstance(x, dict):
        return tuple((repr(k), snapshot(v)) for k, v in x.items())
    return repr(x)


def np_views(x, out=None, index=True):
    """NumPy arrays that share memory with the object (as far as they can be obtained without copying).
    index=False leaves out the row/column labels of a pandas object (an Index cannot be written through its API)."""
    out = [] if out is None else out
    try:
        if not index and isinstance(x, pd.Index):
            return out
        if isinstance(x, np.ndarray):
            out.append(x)
        elif isinstance(x, pd.Categorical):
            out.append(x._ndarray)
        elif isinstance(x, (pd.Series, pd.Index)):
            np_views(x.array if isinstance(x, pd.Series) else x._data, out)
            if isinstance(x, pd.Series) and index:
                np_views(x.index, out)
        elif isinstance(x, pd.DataFrame):
            for j in range(x.shape[1]):
                np_views(x.iloc[:, j].array, out)
            if index:
                np_views(x.index, out)
        elif isinstance(x, pd.MultiIndex):
            for c in x.codes:
                np_views(np.asarray(c), out)
        elif isinstance(x, pd.arrays.ArrowExtensionArray):
            np_views(x._pa_array, out)
        elif isinstance(x, pd.api.extensions.ExtensionArray):
            for nm in ("_ndarray", "_data", "_mask"):
                nd = getattr(x, nm, None)
                if isinstance(nd, np.ndarray):
                    out.append(nd)
        elif isinstance(x, pa.ChunkedArray):
            for c in x.chunks:
                np_views(c, out)
        elif isinstance(x, pa.Array):
            try:
                out.append(x.to_numpy(zero_copy_only=True))
            except Exception:
                pass
        elif isinstance(x, pl.Series):
            try:
                out.append(x.to_numpy(allow_copy=False))
            except Exception:
                pass
        elif isinstance(x, pl.DataFrame):
            for c in x.columns:
                np_views(x[c], out)
        elif isinstance(x, dict):
            for v in x.values():
                np_views(v, out, index)
        elif isinstance(x, (list, tuple)):
            for v in x:
                np_views(v, out, index)
    except Exception:
        pass
    return out


def _cow_protected(r):
    """pandas copy-on-write: a Series / DataFrame whose blocks are referenced elsewhere is copied before any write through
    the pandas API, so sharing memory with a pandas input is not a writable alias (reads pandas' block reference tracker)."""
    if not isinstance(r, (pd.Series, pd.DataFrame)):
        return False
    try:
        return all(b.refs.has_reference() for b in r._mgr.blocks)
    except Exception:
        return False


def _shares(a, b):
    try:
        return a.size > 0 and b.size > 0 and np.shares_memory(a, b)
    except Exception:
        return False


def _bump(a):
    """an array of the same dtype and shape, different from `a` in every position."""
    k = a.dtype.kind
    if k == "b":
        return ~a
    if k == "f":
        return np.where(np.isnan(a), 7.0, a + 1.0).astype(a.dtype)
    if k in "iu":
        return (a + 1).astype(a.dtype)
    if k in "mM":
        return (a.view("i8") + 1).view(a.dtype)
    if k == "O":
        return np.array([("~" + str(x)) for x in a.ravel()], dtype=object).reshape(a.shape)
    return a


def mutate(r):
    """write through every ordinary mutation route of a result; returns the number of writes made."""
    w = 0
    if isinstance(r, _Raised) or r is None:
        return 0
    if isinstance(r, np.ndarray):
        if r.flags.writeable and r.size:
            r[...] = _bump(r)
            w += 1
    elif isinstance(r, pd.Series):
        if len(r):
            try:
                a = r.to_numpy(copy=True)
                r.iloc[:] = _bump(a) if isinstance(a, np.ndarray) and a.dtype.kind in "bfiumM" else r.iloc[::-1].to_numpy()
                w += 1
            except Exception:
                pass
    elif isinstance(r, pd.DataFrame):
        for j in range(r.shape[1]):
            if len(r):
                try:
                    a = r.iloc[:, j].to_numpy(copy=True)
                    r.iloc[:, j] = _bump(a) if a.dtype.kind in "bfiumM" else a[::-1]
                    w += 1
                except Exception:
                    pass
    elif isinstance(r, dict):
        for v in list(r.values()):
            w += mutate(v)
        if r:
            r.pop(next(iter(r)))
            w += 1
    elif isinstance(r, (list, tuple)):
        for v in r:
            w += mutate(v)
    return w


# ------------------------------------------------------------------ the object under test
class World:
    def __init__(self, case):
        from groupby_lib import GroupBy
        from groupby_lib.groupby import core
        self.case = case
        rng = random.Random(case["seed"])
        ids = case["keys"]
        n = self.n = len(ids)
        e = api.key_encoder(case.get("kenc", "f64"))
        kc = case.get("kcont", "np")
        if kc == "pachunk":
            kc = ("pachunk", [n // 2, n - n // 2])

        def mk():
            r = random.Random(case["seed"])
            raw = e.enc(ids)
            keys = raw if kc == "np" else api.wrap_container(raw, kc, name="k")
            vals = _values(case.get("venc", "f64"), n, r)
            mk_ = case.get("mkind", "bool")
            r2 = random.Random(case["seed"] + 1)
            sel = [r2.random() < 0.7 for _ in range(n)]
            mask = {"none": None, "bool": np.array(sel, dtype=bool), "series": pd.Series(np.array(sel, dtype=bool)),
                    "pos": np.array([i for i in range(n) if sel[i]], dtype=np.int64),
                    "posneg": np.array([(i if i % 2 else i - n) for i in range(n) if sel[i]], dtype=np.int64),     # positions counted from the end
                    "slice": slice(1, None)}[mk_]
            times = np.array([np.datetime64("2021-01-01", "ns") + np.timedelta64(i, "h") for i in range(n)])
            v2 = np.array([float(r2.choice([1, 2, 4])) for _ in range(n)])
            return {"keys": keys, "values": vals, "mask": mask, "times": times, "values2": v2}

        self.mk = mk
        self.inp = mk()
        self.T = 4 if case.get("chunked") else 10 ** 6
        core.THRESHOLD_FOR_CHUNKED_FACTORIZE = self.T
        self.core = core
        self.pristine = {k: snapshot(v) for k, v in self.inp.items()}
        self.gb = call(GroupBy, self.inp["keys"])
        self.results = []

    def fresh(self):
        from groupby_lib import GroupBy
        self.core.THRESHOLD_FOR_CHUNKED_FACTORIZE = self.T
        inp = self.mk()
        return call(GroupBy, inp["keys"]), inp

    # -- concrete operations
    def run(self, gb, inp, name):
        from groupby_lib.groupby import factorization
        v, m, t = inp["values"], inp["mask"], inp["times"]
        v1 = _first_col(v)
        bm = m if not isinstance(m, (slice,)) and not (isinstance(m, np.ndarray) and m.dtype != bool) else None   # row-wise ops take boolean masks
        if name in ("sum", "mean", "min", "max", "first", "last", "count", "var", "std"):
            return getattr(gb, name)(v, mask=m)
        if name == "size":
            return gb.size(mask=m)
        if name == "ratio":
            return gb.ratio(v1, inp["values2"], mask=bm)
        if name == "subset_ratio":
            return gb.subset_ratio(v1, np.arange(self.n) % 2 == 0)
        if name == "density":
            return gb.density(v1)
        if name.endswith("_t") and name != "ema_t":
            f = name[:-2]
            return gb.size(mask=m, transform=True) if f == "size" else getattr(gb, f)(v, mask=m, transform=True)
        if name in ("cumsum", "cummin", "cummax"):
            return getattr(gb, name)(v, mask=bm)
        if name == "cumcount":
            return gb.cumcount(mask=bm)
        if name in ("shift", "diff"):
            return getattr(gb, name)(v, mask=bm)
        if name == "ema":
            return gb.ema(v, alpha=0.5, mask=bm)
        if name == "ema_g":
            return gb.ema(v, alpha=0.5, mask=bm, index_by_groups=True)
        if name == "ema_t":
            return gb.ema(v, halflife="1h", times=t, mask=bm)
        if name.startswith("rolling_"):
            g = name.endswith("_g")
            return getattr(gb, name[:-2] if g else name)(v, 2, mask=bm, min_periods=1, index_by_groups=g)
        if name == "ema_t_g":
            return gb.ema(v, halflife="1h", times=t, mask=bm, index_by_groups=True)
        if name == "nearby":
            return gb.group_nearby_members(np.arange(self.n, dtype=float), 1.0)
        if name in ("head", "tail"):
            return getattr(gb, name)(v, 1)
        if name == "nth":
            return gb.nth(v, 0)
        if name == "head_all":
            return gb.head(v, self.n + 1)
        if name == "tail_all":
            return gb.tail(v, self.n + 1)
        if name == "head_all_i":
            return gb.head(v, self.n + 1, keep_input_index=True)
        if name == "head_i":
            return gb.head(v, 2, keep_input_index=True)
        if name == "nth_i":
            return gb.nth(v, -1, keep_input_index=True)
        if name == "apply":
            return gb.apply(v, np.nansum, m)
        if name == "median":
            return gb.median(v, mask=m)
        if name == "quantile":
            return gb.quantile(v, [0.25, 0.75], mask=m)
        if name == "agg":
            return gb.agg(v, ["sum", "max"], mask=m)
        if name == "groups":
            return gb.groups
        if name == "key_count":
            return gb.key_count
        if name == "count_ikey":
            return gb.count_ikey()
        if name == "count_ikey_m":
            return gb.count_ikey(mask=m)
        if name == "sum_margins":
            return gb.sum(v, mask=m, margins=True)
        if name == "mean_margins":
            return gb.mean(v, mask=m, margins=True)
        if name == "factorize_1d":
            return factorization.factorize_1d(inp["keys"])
        if name == "factorize_2d":
            return factorization.factorize_2d(inp["keys"], inp["values2"])
        raise ValueError(name)

    # -- observations
    def logical(self, gb):
        ik = gb._group_ikey
        if isinstance(ik, np.ndarray):
            codes = ik
        else:
            ch = [c.to_numpy() for c in ik.chunks]
            if gb._group_key_pointers is not None:
                ch = [np.append(p, -1)[k] for p, k in zip(gb._group_key_pointers, ch)]
            codes = np.concatenate(ch) if ch else np.array([], dtype=int)
        labels = list(gb.result_index)
        return [repr(labels[c]) if c >= 0 else None for c in codes], repr(labels), repr(list(gb.result_index.names))

    def dirty(self, fg=None):
        d = [k for k in ("keys", "values", "mask", "times") if snapshot(self.inp[k]) != self.pristine[k]]
        if snapshot(self.inp["values2"]) != self.pristine["values2"]:
            d.append("values")
        if fg is None:
            fg, _ = self.fresh()
        try:
            lg, lf = self.logical(self.gb), self.logical(fg)
            if lg[0] != lf[0]:
                d.append("codes")
            if lg[1:] != lf[1:]:
                d.append("labels")
        except Exception:
            d.append("codes")
        for b in CACHE_ATTRS:
            attr = _cache(self.gb, b)
            if attr is not None:
                try:
                    if not _equal(self.gb.__dict__[attr], getattr(fg, attr)):
                        d.append(b)
                except Exception:
                    d.append(b)
        return sorted(set(d))

    def buffers(self):
        """name -> NumPy arrays / objects of that buffer (for alias detection)."""
        gb = self.gb
        b = {k: np_views(self.inp[k]) for k in ("keys", "values", "mask", "times")}
        b["values"] += np_views(self.inp["values2"])
        b["codes"] = np_views(gb._group_ikey) + ([p for p in gb._group_key_pointers] if gb._group_key_pointers is not None else [])
        b["labels"] = np_views(gb._result_index)
        for nm in CACHE_ATTRS:
            attr = _cache(gb, nm)
            b[nm] = np_views(gb.__dict__[attr]) if attr is not None else []
        return b

    def alias(self, r):
        al, ro = set(), set()
        for nm in CACHE_ATTRS:
            attr = _cache(self.gb, nm)
            if attr is not None and r is self.gb.__dict__[attr]:
                al.add(nm)          # the cached object itself was handed out
        mine = np_views(r, index=False)
        cow = _cow_protected(r)
        for nm, arrs in self.buffers().items():
            for a in mine:
                for x in arrs:
                    if a is x or _shares(a, x):
                        (al if a.flags.writeable and not cow else ro).add(nm)
        return sorted(al), sorted(ro - al)

    def corrupt(self, b):
        attr = _cache(self.gb, b)
        if attr is None:
            return False
        obj = self.gb.__dict__[attr]
        flipped = []
        for a in np_views(obj) + ([self.gb.__dict__["_group_sort_indexer"]] if b == "groups" and "_group_sort_indexer" in self.gb.__dict__ else []):
            if not a.flags.writeable:    # the harness may write where a caller cannot
                try:
                    a.setflags(write=True)
                    flipped.append(a)
                except ValueError:
                    pass
        try:
            return mutate(dict(obj) if isinstance(obj, dict) else obj) > 0
        finally:
            for a in flipped:
                a.setflags(write=False)


def run_history(case):
    tr = {"cfg": {k: case.get(k) for k in ("kenc", "kcont", "venc", "mkind", "chunked", "seed", "steps")}, "keys": case["keys"], "ev": []}
    try:
        w = World(case)
    except Exception as ex:
        tr["ev"].append({"e": "call", "op": "reduce", "name": "constructor", "alias": [], "roalias": [], "dirty": [], "eq": 0, "exc": f"{type(ex).__name__}: {ex}"[:150]})
        return tr
    for st in case["steps"]:
        kind, arg = st
        fg = None
        try:
            if kind == "call":
                fg, finp = w.fresh()
                want = _try(w.run, fg, finp, arg)
                got = _try(w.run, w.gb, w.inp, arg)
                al, ro = ([], []) if isinstance(got, _Raised) else w.alias(got)
                w.results.append(got)
                ev = {"e": "call", "op": CLASS[arg], "name": arg, "alias": al, "roalias": ro, "eq": int(_equal(got, want)),
                      "raised": got.kind if isinstance(got, _Raised) else None}
            elif kind == "mutate":
                i = arg if arg >= 0 else len(w.results) + arg
                if not (0 <= i < len(w.results)):
                    continue
                ev = {"e": "mutate", "r": i + 1, "writes": mutate(w.results[i])}
            else:
                if not w.corrupt(arg):
                    continue
                ev = {"e": "corrupt", "b": arg}
            ev["dirty"] = w.dirty(fg)
        except Exception as ex:
            ev = {"e": kind, "op": CLASS.get(arg, "reduce") if kind == "call" else None, "name": str(arg), "alias": [], "roalias": [], "dirty": ["keys"], "eq": 0,
                  "r": 1, "b": "counts", "exc": f"harness: {type(ex).__name__}: {ex}"[:200]}
        tr["ev"].append(ev)
    return tr
