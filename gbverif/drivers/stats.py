"""Drivers for C16: apply with recording functions, median / quantile, agg / ratio / density."""
import threading

import numpy as np
import pandas as pd

from ..abstract import EMB, to_rat
from ..env import JUNK, NULL
from ..util import call
from . import api


def _dec_seq(x):
    return [NULL if (isinstance(v, float) and v != v) else int(v) for v in np.asarray(x, dtype=float).tolist()]


def _G(seq):
    return sum((j + 1) * (9 if v == NULL else v) for j, v in enumerate(seq)) + 1000 * len(seq)


def run_apply(case):
    """case: fkind scalar|fixed|aligned|median|quantile, keys, kenc, vals, mask (none/bool), tf."""
    from groupby_lib import GroupBy
    api.set_config(case)
    emb = EMB["f64"]
    n = len(case["keys"])
    tr = {k: case[k] for k in ("keys", "vals", "mask", "tf")}
    fk = case["fkind"]
    tr["fkind"] = "scalar" if fk in ("median", "quantile") else fk
    tr["cfg"] = {"fkind": fk, "kenc": case["kenc"], "vcont": case.get("vcont"), "T": case.get("T"), "q": case.get("q")}
    keyobj, encs = api.build_keys(case)
    tr["rank"], _ = api.key_meta(case, encs)
    values = api.wrap_container(emb.enc(case["vals"]), case.get("vcont", "np"), index=case.get("index"))
    mask = api.build_mask(case["mask"], n)
    got, lock = [], threading.Lock()

    def rec_scalar(x):
        s = _dec_seq(x)
        with lock:
            got.append(s)
        return float(_G(s))

    def rec_fixed(x):
        s = _dec_seq(x)
        with lock:
            got.append(s)
        return np.array([float(_G(s)), float(_G(s) + 1)])

    def rec_aligned(x):
        with lock:
            got.append(_dec_seq(x))
        return np.asarray(x, dtype=float) * 2

    f = {"scalar": rec_scalar, "fixed": rec_fixed, "aligned": rec_aligned, "median": rec_scalar, "quantile": rec_scalar}[fk]
    try:
        gb = call(GroupBy, keyobj)
        kw = dict(mask=mask)
        if fk in ("scalar", "median"):
            kw["transform"] = bool(case["tf"])
        out = call(gb.apply, values, f, **kw)
        if fk == "aligned":
            # the library probes whether f is input-aligned by calling it on slices: keep only whole-group calls
            pass
        same = None
        if fk == "median":
            a = call(gb.median, values, mask=mask, transform=bool(case["tf"]))
            b = call(gb.apply, values, np.median, mask=mask, transform=bool(case["tf"]))
            same = int(np.array_equal(np.asarray(a, dtype=float), np.asarray(b, dtype=float), equal_nan=True) and list(a.index) == list(b.index))
        elif fk == "quantile":
            q = case.get("q", [0.25, 0.5])
            a = call(gb.quantile, values, q=q, mask=mask)
            b = call(gb.apply, values, np.quantile, mask=mask, q=q)
            # the entry labelled (group, q_j) must be the j-th entry of np.quantile(group values, q)
            qa = {tuple(map(str, k[:-1])) + (round(float(k[-1]), 9),): x for k, x in zip(a.index.tolist(), np.asarray(a, dtype=float).ravel().tolist())}
            qb = {tuple(map(str, k[:-1])) + (round(float(q[int(k[-1])]), 9),): x for k, x in zip(b.index.tolist(), np.asarray(b, dtype=float).ravel().tolist())}
            same = int(len(qa) == len(a) and qa.keys() == qb.keys() and all((qa[k] == qb[k]) or (qa[k] != qa[k] and qb[k] != qb[k]) for k in qa))
    except Exception as ex:
        tr.update(out="raise", exc=type(ex).__name__, msg=str(ex)[:160], got=[], labels=[], res=[])
        return tr
    tr["out"] = "ok"
    if same is not None:
        tr["same"] = same
    a = np.asarray(out, dtype=float)
    res = [NULL if x != x else (int(x) if x == int(x) else JUNK) for x in a.tolist()]
    tr["res"] = res
    if fk == "aligned":
        idx = out.index.tolist()
        tr["pos"] = [int(t[-1]) for t in idx]
        tr["labels"] = [[e.dec(x) for e, x in zip(encs, (t[:-1] if len(t) > 2 else (t[0],)))] for t in idx]
        # drop the probing calls (check_if_func_is_non_reduce): they are prefixes of a group's values
        full = {}
        for s in got:
            full.setdefault(tuple(s), 0)
        tr["got_all"] = len(got)
    elif case["tf"] and fk in ("scalar", "median"):
        tr["labels"] = []
    elif fk == "fixed":
        idx = out.index.tolist()
        tr["labels"] = [[e.dec(x) for e, x in zip(encs, (t[:-1] if len(t) > 2 else (t[0],)))] for t in idx]
    else:
        idx = out.index
        tr["labels"] = [[e.dec(x) for e, x in zip(encs, t)] for t in idx.tolist()] if isinstance(idx, pd.MultiIndex) else [[encs[0].dec(x)] for x in idx.tolist()]
    tr["got"] = sorted(got)
    return tr


def _labels_of(index, encs):
    if isinstance(index, pd.MultiIndex):
        return [[e.dec(x) for e, x in zip(encs, t)] for t in index.tolist()]
    return [[encs[0].dec(x)] for x in index.tolist()]


def run_compose(case):
    """case: kind agg|ratio|density, keys, kenc, vals, [vals2], mask (none/bool), funcs."""
    from groupby_lib import GroupBy
    api.set_config(case)
    emb = EMB[case.get("emb", "f64")]
    n = len(case["keys"])
    tr = {"kind": case["kind"], "keys": case["keys"], "vals": case["vals"], "mask": case["mask"],
          "cfg": {"kenc": case["kenc"], "funcs": case.get("funcs"), "emb": case.get("emb", "f64"), "vals2": case.get("vals2"), "dvals": case.get("dvals")}}
    keyobj, encs = api.build_keys(case)
    values = pd.Series(emb.enc(case["vals"]), name="v")
    mask = api.build_mask(case["mask"], n)
    try:
        gb = call(GroupBy, keyobj)
        if case["kind"] == "agg":
            funcs = case["funcs"]
            out = call(gb.agg, values, funcs, mask=mask)
            tr["labels"] = _labels_of(out.index, encs)
            tr["cols"] = [[to_rat(x) for x in np.asarray(out[f], dtype=float).tolist()] for f in funcs]
            tr["singles"], tr["slabels"] = [], []
            for f in funcs:
                s = call(getattr(gb, f), values, mask=mask)
                tr["singles"].append([to_rat(x) for x in np.asarray(s, dtype=float).tolist()])
                tr["slabels"].append(_labels_of(s.index, encs))
        elif case["kind"] == "ratio":
            v2 = pd.Series(emb.enc(case["vals2"]), name="w")
            r = call(gb.ratio, values, v2, mask=mask)
            s1 = call(gb.sum, values, mask=mask)
            s2 = call(gb.sum, v2, mask=mask)
            tr["r"] = [to_rat(x) if np.isfinite(x) else [JUNK, 1] for x in np.asarray(r, dtype=float).tolist()]
            tr["s1"] = [int(x) for x in np.asarray(s1, dtype=float).tolist()]
            tr["s2"] = [int(x) for x in np.asarray(s2, dtype=float).tolist()]
        else:
            if case.get("dvals"):
                d = call(gb.density, values, mask=mask)
                sz = call(gb.sum, values, mask=mask)
            else:
                d = call(gb.density, mask=mask)
                sz = call(gb.size, mask=mask)
            tr["d"] = [to_rat(x) for x in np.asarray(d, dtype=float).tolist()]
            tr["sizes"] = [int(x) for x in np.asarray(sz, dtype=float).tolist()]
            tr["same_labels"] = int(list(d.index) == list(sz.index))
    except Exception as ex:
        tr.update(out="raise", exc=type(ex).__name__, msg=str(ex)[:160])
        return tr
    tr["out"] = "ok"
    return tr
