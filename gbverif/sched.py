"""Harness-side scheduler for util.parallel_map (hook H4, no repository change).

util.parallel_map looks up concurrent.futures.ThreadPoolExecutor and
concurrent.futures.as_completed at call time.  We install

  * SchedExecutor -- a subclass of the real ThreadPoolExecutor whose submit() hands the
    task to a persistent real ThreadPoolExecutor (real threads, real futures).  When a
    completion order is prescribed, each task body runs unmodified and then blocks until
    every task that precedes it in the prescribed order has *completed* (its future is
    done); so the library's as_completed() loop observes exactly that order.
  * an as_completed wrapper that opens the gate for the first task only once the library
    is actually waiting (otherwise futures finished before as_completed() starts would be
    yielded in set order).

Nothing here changes what the tasks compute or how the library gathers them.
"""
import concurrent.futures as cf
import threading
from contextlib import contextmanager

_REAL_TPE = cf.ThreadPoolExecutor
_REAL_AS_COMPLETED = cf.as_completed

_state = threading.local()
_pool_lock = threading.Lock()
_shared_pool = None
_installed = False

# the prescription for the *next outermost* parallel_map call in this thread
_plan = {"provider": None, "log": None}
MAX_FORCED = 8


def _pool():
    global _shared_pool
    with _pool_lock:
        if _shared_pool is None:
            _shared_pool = _REAL_TPE(max_workers=64, thread_name_prefix="gbverif")
        return _shared_pool


def reset_pool():
    """join and drop the persistent pool (so that the process is thread-free again before a fork)."""
    global _shared_pool
    with _pool_lock:
        p, _shared_pool = _shared_pool, None
    if p is not None:
        p.shutdown(wait=True)


def _after_fork():
    # threads do not survive fork(): the child starts with a fresh pool
    global _shared_pool, _pool_lock
    _shared_pool = None
    _pool_lock = threading.Lock()


import os as _os
_os.register_at_fork(after_in_child=_after_fork)


class _Batch:
    def __init__(self, order):
        self.order = order            # list of submission indices in completion order, or None
        self.n = 0
        self.release = {}
        self.futures = {}
        self.go = threading.Event()
        self.lock = threading.Lock()
        self.observed = []            # completion order as seen by done-callbacks
        self.seq = 0


class SchedExecutor(_REAL_TPE):
    """Drop-in for ThreadPoolExecutor inside util.parallel_map."""

    def __init__(self, max_workers=None, *a, **k):   # no threads of our own
        self._gb_batch = None
        self._gb_depth = getattr(_state, "depth", 0)
        self._gb_outer = (self._gb_depth == 0 and threading.current_thread().name.startswith("gbverif") is False)

    def __enter__(self):
        if self._gb_outer and _plan["provider"] is not None:
            self._gb_batch = _Batch(None)
            _state.batch = self._gb_batch
        return self

    def __exit__(self, *exc):
        b = self._gb_batch
        if b is not None:
            b.go.set()
            for ev in b.release.values():
                ev.set()
            if _plan["log"] is not None:
                _plan["log"].append({"tasks": b.n, "order": b.order, "observed": list(b.observed)})
            _state.batch = None
        return False

    def shutdown(self, wait=True, **k):
        pass

    def submit(self, fn, *args, **kwargs):
        b = self._gb_batch
        if b is None:
            return _pool().submit(fn, *args, **kwargs)
        idx = b.n
        b.n += 1
        ev = threading.Event()
        b.release[idx] = ev

        def body():
            try:
                return fn(*args, **kwargs)
            finally:
                b.go.wait(30)
                ev.wait(30)

        fut = _pool().submit(body)
        b.futures[idx] = fut

        def done(_f, idx=idx):
            with b.lock:
                b.observed.append(idx)
                if b.order is not None:
                    pos = b.order.index(idx)
                    if pos + 1 < len(b.order):
                        b.release[b.order[pos + 1]].set()

        fut.add_done_callback(done)
        return fut


def _as_completed(fs, timeout=None):
    b = getattr(_state, "batch", None)
    if b is not None and not b.go.is_set():
        prov = _plan["provider"]
        order = prov(b.n) if (prov is not None and 2 <= b.n <= MAX_FORCED) else None
        b.order = order
        if order is None:
            for ev in b.release.values():
                ev.set()
        else:
            b.release[order[0]].set()
        b.go.set()
    return _REAL_AS_COMPLETED(fs, timeout=timeout)


def install():
    """Persistent pool for every parallel_map call (fast); order forcing only inside forced()."""
    global _installed
    if not _installed:
        cf.ThreadPoolExecutor = SchedExecutor
        cf.as_completed = _as_completed
        _installed = True


def uninstall():
    global _installed
    cf.ThreadPoolExecutor = _REAL_TPE
    cf.as_completed = _REAL_AS_COMPLETED
    _installed = False


@contextmanager
def forced(provider):
    """provider(k) -> permutation (list) of range(k) = completion order, or None (free)."""
    install()
    log = []
    _plan["provider"], _plan["log"] = provider, log
    try:
        yield log
    finally:
        _plan["provider"], _plan["log"] = None, None
