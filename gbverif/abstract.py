"""Abstract <-> concrete: embeddings of small abstract values into real dtypes, and projections
of real results back into the abstract domain of the specification (trusted, small)."""
import math
from fractions import Fraction

import numpy as np
import pandas as pd

from .env import JUNK, NULL

I64MIN = np.iinfo(np.int64).min
BIG = 2 ** 53          # any detour through float64 loses the +v
TBASE = 2 ** 55      # ns since epoch (1971-02-21): beyond float64 exactness, and 250 of them still fit int64


class Emb:
    """dtype + embedding.  enc(list of abstract values) -> np.ndarray; dec(x) -> abstract."""

    def __init__(self, name, dtype, base=0, nullable=True, scale=1):
        self.name, self.dtype, self.base, self.nullable, self.scale = name, np.dtype(dtype), base, nullable, scale
        self.kind = self.dtype.kind

    @property
    def has_null_input(self):
        # can the *input* array carry a null?  (plain ints: no, see DESIGN Appendix C)
        return self.kind in "fmM"

    @property
    def nonull(self):
        # no in-band null in *results* either (bool, unsigned, sub-64-bit ints)
        return not (self.kind in "fmM" or self.dtype == np.int64)

    def enc(self, vals):
        k = self.kind
        if k == "f":
            return np.array([np.nan if v == NULL else self.base + v * self.scale for v in vals], dtype=self.dtype)
        if k in "mM":
            a = np.array([I64MIN if v == NULL else self.base + v for v in vals], dtype=np.int64)
            return a.view(self.dtype)
        if k == "b":
            return np.array([bool(v) for v in vals], dtype=bool)
        assert NULL not in vals, "plain integer inputs carry no nulls"
        return np.array([self.base + v for v in vals], dtype=self.dtype)

    def dec(self, x, base_mult=1):
        """concrete scalar -> abstract int (NULL / JUNK).  base_mult: how many bases the value carries."""
        if isinstance(x, (np.datetime64, np.timedelta64)):
            x = x.astype(np.int64) if not np.isnat(x) else I64MIN
        elif isinstance(x, (pd.Timestamp, pd.Timedelta)):
            if x is pd.NaT:
                x = I64MIN
            else:
                # pandas .value is ns whatever the unit: rescale to the embedding's unit (inexact -> junk)
                per = {"ns": 1, "us": 10 ** 3, "ms": 10 ** 6, "s": 10 ** 9}[np.datetime_data(self.dtype)[0]] if self.kind in "mM" else 1
                if x.value % per:
                    return JUNK
                x = x.value // per
        elif x is pd.NaT or x is None or x is pd.NA:
            return NULL
        if isinstance(x, (float, np.floating)):
            if math.isnan(x):
                return NULL
            y = (x - self.base * base_mult) / self.scale
            if y != int(y) or abs(y) > 10 ** 6:
                return JUNK
            return int(y)
        if isinstance(x, (bool, np.bool_)):
            return int(x)
        x = int(x)
        if x == I64MIN and self.kind in "imM":
            return NULL
        y = x - self.base * base_mult
        if abs(y) > 10 ** 6:
            return JUNK
        return y

    def dec_arr(self, arr, base_mult=1):
        a = np.asarray(arr)
        if a.dtype.kind in "mM":
            a = a.view(np.int64)
        return [self.dec(x, base_mult) for x in a.tolist()] if a.dtype.kind != "O" else [self.dec(x, base_mult) for x in a]

    def dec_sum(self, arr):
        """sum results under a based embedding: (hi, lo) with x = hi*base + lo."""
        a = np.asarray(arr)
        if a.dtype.kind in "mM":
            a = a.view(np.int64)
        his, los = [], []
        for x in a.tolist():
            if isinstance(x, float):
                if math.isnan(x):
                    his.append(JUNK); los.append(NULL); continue
                if x != int(x):
                    his.append(JUNK); los.append(JUNK); continue
                x = int(x)
            if self.base == 0:
                his.append(None); los.append(x if abs(x) < 10 ** 6 else JUNK)
            else:
                hi, lo = divmod(int(x), self.base)
                if lo > self.base // 2:
                    hi, lo = hi + 1, lo - self.base
                his.append(hi if abs(hi) < 10 ** 6 else JUNK)
                los.append(lo if abs(lo) < 10 ** 6 else JUNK)
        return his, los


EMB = {e.name: e for e in [
    Emb("f64", "float64"),
    Emb("f32", "float32"),
    Emb("f64off", "float64", base=1024.0),
    Emb("i64", "int64"),
    Emb("i64big", "int64", base=BIG),
    Emb("i32", "int32"),
    Emb("i32big", "int32", base=2 ** 30),        # two of them exceed the 32-bit range
    Emb("i16", "int16"),
    Emb("u32", "uint32", base=2 ** 31),
    Emb("i8", "int8"),
    Emb("u8", "uint8"),
    Emb("u64", "uint64"),
    Emb("bool", "bool"),
    Emb("M8ns", "datetime64[ns]", base=TBASE),
    Emb("M8ns0", "datetime64[ns]", base=0),
    Emb("M8s", "datetime64[s]", base=10 ** 9),
    Emb("M8us", "datetime64[us]", base=10 ** 15),
    Emb("m8ns", "timedelta64[ns]", base=TBASE),
    Emb("m8ns0", "timedelta64[ns]", base=0),
    Emb("m8s", "timedelta64[s]", base=10 ** 9),
    Emb("M8ms", "datetime64[ms]", base=10 ** 12),
    Emb("m8us", "timedelta64[us]", base=10 ** 15),
    # narrow signed integers AT THE BOTTOM of their range: abstract 1 is the dtype's lowest value (-128, -32768, -2^31), which is
    # a value like any other for these dtypes (only int64 / temporal data have an in-band null); selection-type operations only
    Emb("u64big", "uint64", base=2 ** 53),          # unsigned values beyond float64's exact range
    Emb("i8lo", "int8", base=-129),
    Emb("i16lo", "int16", base=-32769),
    Emb("i32lo", "int32", base=-2 ** 31 - 1),
]}


def to_rat(x, max_den=100000, tol=1e-12):
    """float -> [num, den] exactly recovered, or [JUNK, 1]; NaN -> [NULL, 1]."""
    if x is None or (isinstance(x, float) and math.isnan(x)):
        return [NULL, 1]
    x = float(x)
    if math.isinf(x):
        return [JUNK, 1]
    f = Fraction(x).limit_denominator(max_den)
    if abs(float(f) - x) <= tol * max(1.0, abs(x)) and abs(f.numerator) < 2 ** 30:
        return [f.numerator, f.denominator]
    return [JUNK, 1]


# ------------------------------------------------------------------ logical dtype descriptors (C12)
def _np_desc(dt):
    dt = np.dtype(dt)
    k = dt.kind
    if k in "mM":
        return {"k": k, "w": 64, "unit": np.datetime_data(dt)[0], "tz": ""}
    if k == "b":
        return {"k": "b", "w": 8, "unit": "", "tz": ""}
    if k in "iuf":
        return {"k": k, "w": dt.itemsize * 8, "unit": "", "tz": ""}
    return {"k": "O", "w": 0, "unit": "", "tz": ""}


def _pa_desc(t):
    import pyarrow as pa
    if pa.types.is_timestamp(t):
        return {"k": "M", "w": 64, "unit": t.unit, "tz": t.tz or ""}
    if pa.types.is_duration(t):
        return {"k": "m", "w": 64, "unit": t.unit, "tz": ""}
    if pa.types.is_boolean(t):
        return {"k": "b", "w": 8, "unit": "", "tz": ""}
    if pa.types.is_integer(t):
        return {"k": "i" if pa.types.is_signed_integer(t) else "u", "w": t.bit_width, "unit": "", "tz": ""}
    if pa.types.is_floating(t):
        return {"k": "f", "w": t.bit_width, "unit": "", "tz": ""}
    return {"k": "O", "w": 0, "unit": "", "tz": ""}


def dtdesc(obj):
    """logical dtype [k, w, unit, tz] of a 1-D container or of the first column of a 2-D one."""
    import polars as pl
    import pyarrow as pa
    if isinstance(obj, pd.DataFrame):
        obj = obj.iloc[:, 0]
    if isinstance(obj, pl.DataFrame):
        obj = obj.to_series(0)
    if isinstance(obj, (list, tuple)):
        obj = obj[0]
    if isinstance(obj, (pa.Array, pa.ChunkedArray)):
        return _pa_desc(obj.type)
    if isinstance(obj, pl.Series):
        return _pa_desc(obj.to_arrow().type) if len(obj) or True else None
    dt = getattr(obj, "dtype", None)
    if isinstance(dt, np.dtype):
        return _np_desc(dt)
    if isinstance(dt, pd.DatetimeTZDtype):
        return {"k": "M", "w": 64, "unit": dt.unit, "tz": str(dt.tz)}
    if isinstance(dt, pd.ArrowDtype):
        return _pa_desc(dt.pyarrow_dtype)
    if dt is not None and hasattr(dt, "numpy_dtype"):          # pandas nullable extension dtypes
        return _np_desc(dt.numpy_dtype)
    return _np_desc(np.asarray(obj).dtype)
