"""Known findings: predicates live here (code), the list of open/fixed entries in
/verif/known_findings.json (committed, never written at run time).

A rejected trace counts as a known finding only if its entry is 'open', the predicate below
matches the trace's call site and input, and (where a deviation config exists) TLC accepts the
trace with exactly that deviation switch on."""
import json

from .env import VERIF

KNOWN = {}


def finding(fid):
    def deco(pred):
        KNOWN[fid] = {"pred": pred}
        return pred
    return deco


def load_known(pid):
    p = VERIF / "known_findings.json"
    if not p.exists():
        return {}
    data = json.loads(p.read_text())
    out = {}
    for e in data.get("findings", []):
        if e["property"] == pid and e["id"] in KNOWN:
            out[e["id"]] = e
    return out
