"""Known findings: predicates live here (code), the list of open/fixed entries in
/verif/known_findings.json (committed, never written at run time).

A rejected trace counts as a known finding only if its entry is 'open', the predicate below
matches the trace's call site and input, and (where a deviation config exists) TLC accepts the
trace with exactly that deviation switch on."""
import json

from .env import VERIF

KNOWN = {}


def finding(fid):
    def deco(pred):
        KNOWN[fid] = {"pred": pred}
        return pred
    return deco


def load_known(pid):
    p = VERIF / "known_findings.json"
    if not p.exists():
        return {}
    data = json.loads(p.read_text())
    out = {}
    for e in data.get("findings", []):
        if e["property"] == pid and e["id"] in KNOWN:
            out[e["id"]] = e
    return out


# ------------------------------------------------------------------------------------------ C02
def _has_null_key(t):
    return any(-999 in k for k in t.get("keys", []))


@finding("C02-stringdtype-leading-null-chunked")
def _kf_c02_a(t):
    # pandas StringDtype keys (Series / Index / 'string') on the chunk-wise route whose first key is null:
    # util.to_arrow -> pa.array(object array starting with NaN/NA) infers double / fails -> ArrowInvalid
    return (t.get("out") == "raise" and t.get("exc") == "ArrowInvalid" and t.get("kenc") == ["str"]
            and t.get("cfg", {}).get("kcont") in ("series", "index", "nullable")
            and (t.get("cfg", {}).get("T") or 10 ** 6) < 10 ** 6
            and t["keys"] and t["keys"][0] == [-999])


@finding("C02-nullable-boolean-na")
def _kf_c02_b(t):
    # pandas nullable 'boolean' keys containing NA: factorize_1d views the object array as int8 -> TypeError
    return (t.get("out") == "raise" and t.get("exc") == "TypeError" and t.get("kenc") == ["bool"]
            and t.get("cfg", {}).get("kcont") == "nullable" and _has_null_key(t))


@finding("C02-arrow-null-type-all-null")
def _kf_c02_c(t):
    # a pyarrow array of type null (all keys null): dictionary_encode keeps a null label
    return (t.get("out") == "ok" and t.get("cfg", {}).get("kcont") == "pa_null"
            and t["keys"] and all(k == [-999] for k in t["keys"]) and t.get("labels") == [[-999]])


# ------------------------------------------------------------------------------------------ C09
@finding("C09-bygroup-no-selected-row")
def _kf_c09_a(t):
    # group-sorted layout (index_by_groups=True -> GroupBy.apply) when no row at all is selected
    # (every row masked out or null-keyed): apply() indexes results_per_value[0][0] of an empty list
    judged = [1 for k, s in zip(t.get("keys", []), t.get("sel", [])) if k != -999 and s == 1]
    return (t.get("out") == "raise" and t.get("exc") == "IndexError" and t.get("cfg", {}).get("layout") == "bygroup"
            and not judged)


# ------------------------------------------------------------------------------------------ C05
@finding("C05-ema-decays-across-masked-rows")
def _kf_c05_a(t):
    # plain (row counting) EMA: an unselected row of the group still decays the state, so the value at the next
    # selected row differs from the EMA of the filtered rows.  Pinned by the repository's passing test
    # test_ema_comparison_with_pandas_ewm[not timed-*-masked] (pandas ewm on values.where(mask)).
    return t.get("op") == "ema" and t.get("timed") == 0 and 0 in t.get("sel", []) and t.get("out") == "ok"


@finding("C05-chunked-keys-positional-mask-as-set")
def _kf_c05_b(t):
    # chunked group keys: _resolve_mask_argument_into_chunks turns a positional mask into a boolean one, so
    # repeated positions count once and the selection order is lost (flat keys index the way NumPy does)
    p = t.get("mask", {}).get("p")
    if t.get("mask", {}).get("k") != "pos" or not p or t.get("out") != "ok":
        return False
    chunked = (t.get("cfg", {}).get("T") or 10 ** 6) < 10 ** 6 or "pachunk" in str(t.get("cfg", {}).get("kcont"))
    n = len(t.get("keys", []))
    norm = [x + n if x < 0 else x for x in p]
    return chunked and (len(set(norm)) < len(norm) or norm != sorted(norm))


# ------------------------------------------------------------------------------------------ C16 / C07
def _no_selected_row(t):
    keys = t.get("keys", [])
    m = t.get("mask", {"k": "none"})
    sel = m["b"] if m.get("k") == "bool" else [1] * len(keys)
    return not any((-999 not in (k if isinstance(k, list) else [k])) and s for k, s in zip(keys, sel))


def _kf_apply_empty(t):
    # GroupBy.apply (hence median / quantile / group-sorted layouts) when no row at all is selected: IndexError
    return t.get("out") == "raise" and t.get("exc") == "IndexError" and ("fkind" in t or t.get("op") in ("median",)) and _no_selected_row(t)


finding("C16-apply-no-selected-row")(_kf_apply_empty)
finding("C07-apply-no-selected-row")(_kf_apply_empty)


@finding("C07-chunked-keys-positional-mask-as-set")
def _kf_c07_b(t):
    return _kf_c05_b(t)


@finding("C07-var-std-chunked-positional-mask-mixed")
def _kf_c07_c(t):
    # var/std(transform=True) make three kernel calls; the first one unifies the chunked keys, so with a positional
    # mask the sum of squares is computed with set semantics (chunked route) and sum / count with indexing semantics
    # (flat route): inconsistent, even negative, variances.  Same root cause as C05-chunked-keys-positional-mask-as-set.
    return t.get("op") in ("var", "std") and t.get("tf") == 1 and _kf_c05_b(t)
