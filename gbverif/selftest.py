"""./check selftest -- does the binding bite?

For every trace format: a few real calls are executed, their traces must be ACCEPTED by the trace specification;
then one recorded field of each trace is corrupted (a result value, a label, an order, an outcome, an observed
alias / dirty buffer, a dtype) and the corrupted trace must be REJECTED.  A trace specification that accepts a
corrupted trace constrains nothing (exit 2: machinery failure).  The negative *model* configurations (TLC must
refute a deviation switch) run inside every check; the source-level counterpart is the seeded-defect campaign
(DESIGN.md 11.5/11.6).
"""
import copy
import json
import sys

from . import sched, tlc
from .env import NULL


def _bump_first_number(x):
    """corrupt the first judged integer found in a (nested) result list; returns True if something was changed."""
    for i, v in enumerate(x):
        if isinstance(v, list):
            if len(v) == 2 and all(isinstance(y, int) for y in v) and v[0] not in (NULL, -998):     # rational
                x[i] = [v[0] + v[1], v[1]]
                return True
            if _bump_first_number(v):
                return True
        elif isinstance(v, int) and not isinstance(v, bool) and v not in (NULL, -998):
            x[i] = v + 1
            return True
    return False


def families():
    from .checks import C01, C02, C04, C08, C09, C10, C12, C13, C14, C15, C18, C19, C20, C06
    from .drivers import api, rowwise, kernels, factorize, history, margins, validate, memory, helpers
    from . import cases as C
    fams = []
    K, V = [[1], [2], [1], [NULL], [2]], [1, 2, 3, 1, NULL]
    # (name, driver, cases, trace module, cfg, corruption)
    fams.append(("GBCore/reduce", api.run_reduce, [C.base_case(op, [k[0] for k in K], V) for op in ("sum", "mean", "min", "last", "count", "size")],
                 "Trace_GBCore", C01.trace_cfg(), lambda t: _bump_first_number(t["res"])))
    fams.append(("GBCore/labels", api.run_reduce, [C.base_case("sum", [2, 1, 2], [1, 2, 3])], "Trace_GBCore", C01.trace_cfg(),
                 lambda t: t["labels"].reverse() or True))
    fams.append(("GBCumulative", rowwise.run_cum, [dict(op=op, keys=[1, 2, 1, NULL, 2], vals=V, emb="f64", level="api", kenc="f64") for op in ("cumsum", "cummax", "cumcount")],
                 "Trace_GBCumulative", C08.TRACE_CFG.format(diag="FALSE"), lambda t: _bump_first_number(t["res"])))
    fams.append(("GBRolling", rowwise.run_roll, [dict(op=op, W=2, minp=1, keys=[1, 2, 1, 1, 2], vals=[1, 2, 3, 1, 2], emb="f64", level="api", kenc="f64") for op in ("sum", "max", "shift", "diff")],
                 "Trace_GBRolling", C09.trace_cfg(), lambda t: _bump_first_number(t["res"])))
    fams.append(("GBSelect", rowwise.run_select, [dict(kind=k, n=n, keys=[1, 2, 1, NULL, 2, 1], idx=list(range(6)), ncols=1, kenc="f64", vdtype="float64", kcont="np") for k, n in (("head", 1), ("tail", 2), ("nth", 1))],
                 "Trace_GBSelect", C15.TRACE_CFG, lambda t: (t["rows"].pop() is not None) if t["rows"] else False))
    fams.append(("GBNearby", rowwise.run_nearby, [dict(keys=[1, 2, NULL, 1, 2], vals=[0, 0, 1, 1, 5], maxdiff=1, kenc="f64")],
                 "Trace_GBNearby", C06.NEARBY_TRACE, lambda t: _bump_first_number(t["res"])))
    fams.append(("GBValidate", validate.run_case, [dict(op="sum", arg="values", delta=0, idxrel="identical"), dict(op="cumsum", arg="mask", delta=1, idxrel="none")],
                 "Trace_GBValidate", C18.TRACE_CFG.format(l="FALSE", i="FALSE") + "INVARIANT TraceInv\n",
                 lambda t: t.update(outcome=("reject" if t["outcome"] == "return" else "return")) or True))
    fams.append(("GBMemory/alias", memory.run_history, [dict(keys=[1, 2, 1, 2], kenc="f64", kcont="np", venc="f64", mkind="bool", chunked=False, seed=1, steps=[["call", "sum"], ["mutate", 0], ["call", "sum"]])],
                 "Trace_GBMemory", C19.TRACE_CFG.format(a="NoDev", c="FALSE"), lambda t: t["ev"][0].update(alias=["values"]) or True))
    fams.append(("GBMemory/dirty", memory.run_history, [dict(keys=[1, 2, 1, 2], kenc="f64", kcont="np", venc="f64", mkind="bool", chunked=False, seed=1, steps=[["call", "groups"], ["mutate", 0], ["call", "median"]])],
                 "Trace_GBMemory", C19.TRACE_CFG.format(a="NoDev", c="FALSE"), lambda t: t["ev"][1].update(dirty=["keys"]) or True))
    fams.append(("GBObject", history.run_history, [dict(keys=[3, 1, NULL, 1, 2, NULL, 2, 3], kenc="f64", init="local", ops=["reduce", "groups", "transform"], seed=5)],
                 "Trace_GBObject", C13.TRACE_CFG, lambda t: t["ev"][-1].update(eq=0) or True))
    fams.append(("GBMargins", margins.run_margins, [dict(op="sum", keys=[[1], [2], [1]], kenc=["f64"], vals=[1, 2, 3], sel=[1, 1, 1], levels=[1])],
                 "Trace_GBMargins", C14.TRACE_CFG, lambda t: _bump_first_number(t["res"])))
    fams.append(("GBReduce/kernel", kernels.run_case, [dict(op=op, codes=[1, 2, 1, NULL, 2], vals=V, emb="f64", mask={"k": "none"}, split=("t", t)) for op, t in (("sum", 1), ("min", 2), ("first", 3), ("count", 2))],
                 "Trace_GBReduce", C04.trace_cfg(), lambda t: _bump_first_number(t["res"])))
    fams.append(("GBFactorize", factorize.run_case, [dict(keys=[[2], [1], [NULL], [2]], kenc=["f64"], kcont="np", sort=s_, T=T, target="gb", view="ikey") for s_, T in ((1, 10 ** 6), (0, 10 ** 6), (1, 2))],
                 "Trace_GBFactorize", C02.TRACE_CFG, lambda t: t.update(codes=[(c + 1 if c >= 0 else c) for c in t["codes"]]) or True))
    fams.append(("GBEma", rowwise.run_ema, [C10.mk(__import__("gbverif.domains", fromlist=["Rng"]).Rng("st"), [1, 2, 1, 1, 2], [1, 2, 3, NULL, 2], [1] * 5, entry="gb", param=p_, beta="1/2") for p_ in ("alpha", "timed")],
                 "Trace_GBEma", C10.trace_cfg(), lambda t: _bump_first_number(t["res"])))
    fams.append(("GBNanops", helpers.run_nan, [dict(fn=f, arr=[1, NULL, 3, 2], t=t) for f, t in (("sum", 1), ("max", 3), ("mean", 2), ("count", 1))],
                 "Trace_GBHelpers", C20.TRACE_CFG, lambda t: _bump_first_number([t["res"]] if not isinstance(t["res"], list) else t["res"]) if False else _corrupt_scalar(t)))
    # reductions over chunked keys: the returned value, a per-piece partial of hook H6, and count_ikey
    from .checks import C03
    from .drivers import chunked, strategy
    cc = [dict(op=op, keys=[2, 1, NULL, 1, 2], vals=[1, NULL, 2, 3, 1], emb="f64", kenc="f64", klens=None, T=2, mask=m, sort=1, pre=[])
          for op, m in (("sum", {"k": "none"}), ("min", {"k": "bool", "b": [1, 0, 1, 1, 1]}), ("last", {"k": "slice", "s": [1, -997, -997]}))]
    fams.append(("GBChunked/final", chunked.run_chunked, cc, "Trace_GBChunked", C03.chk_trace_cfg(True), lambda t: _bump_first_number(t["final"])))
    fams.append(("GBChunked/partial", chunked.run_chunked, cc, "Trace_GBChunked", C03.chk_trace_cfg(True),
                 lambda t: any(_bump_first_number(p["cnt"]) for p in t["pieces"] if p["cnt"])))
    fams.append(("GBChunked/kcount", chunked.run_chunked, cc, "Trace_GBChunked", C03.chk_trace_cfg(True), lambda t: _bump_first_number(t["kcount"])))
    pc = [dict(n=3, order=[2, 0, 1]), dict(n=3, order=[1, 2, 0], raises=[0, 2]), dict(n=4, order=[3, 1, 0, 2], reduce=1)]
    fams.append(("GBParallel/gather", strategy.run_pool, pc[:1], "Trace_GBParallel", C03.PTRACE, lambda t: t["results"].reverse() or True))
    fams.append(("GBParallel/raise", strategy.run_pool, pc[1:2], "Trace_GBParallel", C03.PTRACE, lambda t: t.update(exc=0) or True))
    fams.append(("GBParallel/reduce", strategy.run_pool, pc[2:], "Trace_GBParallel", C03.PTRACE, lambda t: t["reduced"].reverse() or True))
    fams.append(("GBSelect/kernel", rowwise.run_find_n, [dict(fn=f, codes=[0, 1, 0, -1, 1, 0], ngroups=2, n=2, sel=[1, 1, 1, 1, 0, 1]) for f in ("first", "last")],
                 "Trace_GBSelect", C15.TRACE_CFG, lambda t: _bump_first_number(t["mat"])))
    from .checks import C17 as _C17
    from .drivers import facade as _facade
    dcase = dict(k1=[1, 2, 1], k2=None, vcols={"v1": [1, 2, 3], "v2": [0, NULL, 2]}, by="col", index="shuffled", method="d_head", select="last", series=False, kkinds=["str", "f64"], seed=3)
    fams.append(("GBFacade/deleg", lambda c: _facade.run_case(c), [dcase, dict(dcase, method="d_median", select=None)], "Trace_GBFacade", _C17.PLAIN,
                 lambda t: t.update(eq=0) or True))
    fams.append(("GBFactorize/probe", factorize.run_scaled_multikey, [dict(L=300, nkeys=3, target="f2d")], "Trace_GBFactorize", C02.TRACE_CFG,
                 lambda t: t["codes"].__setitem__(1, t["codes"][0]) or True))
    fams.append(("GBCumulative/long", rowwise.run_cum, [C08.long_cases("quick")[0]], "Trace_GBCumulative", C08.TRACE_CFG.format(diag="FALSE"),
                 lambda t: t["res"].__setitem__(30000, t["res"][30000] + 1) or True))
    return fams


def _corrupt_scalar(t):
    r = t.get("res")
    if isinstance(r, list) and len(r) == 2 and all(isinstance(y, int) for y in r):
        t["res"] = [r[0] + r[1], r[1]]
        return True
    if isinstance(r, int):
        t["res"] = r + 1
        return True
    if isinstance(r, list):
        return _bump_first_number(r)
    return False


def dtype_family():
    from .checks import C12
    from .drivers import rowwise
    tr = rowwise.run_cum(dict(op="cummax", keys=[1, NULL, 1], vals=[1, 2, 3], emb="M8ns", level="api", kenc="f64"))
    tr["family"] = "cum"
    d = C12.dtype_traces([tr])
    return ("GBDtype", d, "Trace_GBDtype", C12.TRACE_CFG, lambda t: t["odt"].update(k="i", unit="") or True)


def main(tier="quick"):
    sched.install()
    bad = []
    rows = []
    todo = []
    for name, fn, cases, tmod, cfg, corrupt in families():
        traces = []
        for c in cases:
            r = fn(c)
            traces += [x for x in (r if isinstance(r, list) else [r])][:1]
        todo.append((name, traces, tmod, cfg, corrupt))
    todo.append(dtype_family())
    for name, traces, tmod, cfg, corrupt in todo:
        acc, _, _ = tlc.validate(tmod, traces, "selftest_ok", cfg)
        n_ok = len(acc)
        cor = []
        for t in traces:
            c = copy.deepcopy(t)
            if corrupt(c):
                cor.append(c)
        acc2, _, _ = tlc.validate(tmod, cor, "selftest_bad", cfg)
        rows.append((name, tmod, len(traces), n_ok, len(cor), len(cor) - len(acc2)))
        if n_ok != len(traces):
            bad.append(f"{name}: {len(traces) - n_ok} genuine trace(s) rejected")
        if not cor:
            bad.append(f"{name}: nothing could be corrupted")
        if acc2:
            bad.append(f"{name}: {len(acc2)} corrupted trace(s) ACCEPTED by {tmod}")
    print(f"{'family':<18}{'trace specification':<22}{'real':>5}{'accepted':>9}{'corrupted':>10}{'rejected':>9}")
    for r in rows:
        print(f"{r[0]:<18}{r[1]:<22}{r[2]:>5}{r[3]:>9}{r[4]:>10}{r[5]:>9}")
    if bad:
        for b in bad:
            print("SELFTEST-FAILURE:", b, file=sys.stderr)
        return 2
    print("selftest: every genuine trace accepted, every corrupted trace rejected")
    return 0
