"""Enumerators of abstract inputs (keys, values, masks, layouts)."""
import itertools
import random

from .env import NONE, NULL


def seqs(alphabet, n):
    return itertools.product(alphabet, repeat=n)


def all_seqs_upto(alphabet, nmax, nmin=0):
    for n in range(nmin, nmax + 1):
        yield from seqs(alphabet, n)


def pairs_upto(a1, a2, nmax, nmin=0):
    """all (s1, s2) with len(s1) == len(s2) <= nmax."""
    for n in range(nmin, nmax + 1):
        for s1 in seqs(a1, n):
            for s2 in seqs(a2, n):
                yield list(s1), list(s2)


def compositions(n, parts, allow_zero=False):
    """all tuples of `parts` non-negative (or positive) ints summing to n."""
    lo = 0 if allow_zero else 1
    if parts == 1:
        if n >= lo:
            yield (n,)
        return
    for first in range(lo, n + 1):
        for rest in compositions(n - first, parts - 1, allow_zero):
            yield (first,) + rest


def all_bool_masks(n):
    return [{"k": "bool", "b": list(b)} for b in itertools.product((0, 1), repeat=n)]


def all_slices(n, steps=(NONE, 1, 2, -1)):
    bounds = [NONE] + list(range(-(n + 1), n + 2))
    return [{"k": "slice", "s": [a, b, st]} for a in bounds for b in bounds for st in steps]


def all_pos_masks(n, maxlen=3, out_of_range=True):
    lo, hi = (-(n + 1), n + 1) if out_of_range else (-n, n)
    res = []
    for L in range(0, maxlen + 1):
        for p in itertools.product(range(lo, hi), repeat=L):
            res.append({"k": "pos", "p": list(p)})
    return res


def py_slice(m):
    a, b, c = (None if x == NONE else x for x in m["s"])
    return slice(a, b, c)


def mask_selection(n, m):
    """0-based positions selected (harness-side, only used to lay out blocks / build filtered
    inputs; the *judgement* of selection is the spec's Sel0)."""
    k = m["k"]
    if k == "none":
        return list(range(n))
    if k == "bool":
        return [i for i, b in enumerate(m["b"]) if b]
    if k == "slice":
        return list(range(n))[py_slice(m)]
    if k == "pos":
        return [p + n if p < 0 else p for p in m["p"]]
    raise ValueError(k)


def array_split_sizes(L, k):
    q, r = divmod(L, k)
    return [q + 1] * r + [q] * (k - r)


class Rng(random.Random):
    def pick(self, xs):
        return xs[self.randrange(len(xs))]
