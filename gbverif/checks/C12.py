"""C12 -- the same data in any supported container or dtype gives the same answer."""
import itertools
import json

from .. import sched, tlc
from ..abstract import EMB
from ..core import CheckRun
from ..domains import Rng
from ..drivers import api, rowwise
from ..env import NULL
from .. import cases as C
from . import C01, C08, C09, C15

MC = ("SPECIFICATION Spec\nCHECK_DEADLOCK FALSE\nCONSTANTS\n  RollViaFloat = {r}\n  CountKeepsTemporal = {c}\n  ForgetUnit = {u}\n  NarrowSum = {s}\n")
INVS = "INVARIANT SelectionKeepsDtype\nINVARIANT TemporalExact\nINVARIANT IntSumIs64\nINVARIANT CountIsNumber\nINVARIANT DiffIsDuration\n"
TRACE_CFG = "SPECIFICATION TraceSpec\nCHECK_DEADLOCK FALSE\nCONSTANTS\n  RollViaFloat = FALSE\n  CountKeepsTemporal = FALSE\n  ForgetUnit = FALSE\n  NarrowSum = FALSE\nINVARIANT TraceInv\n"

EMBS = ["f64", "f32", "i64", "i64big", "u64big", "i32", "i32big", "i16", "i8", "u8", "u32", "u64", "bool",
        "M8ns", "M8ns0", "M8s", "M8us", "M8ms", "m8ns", "m8s", "m8us", "i8lo", "i16lo", "i32lo"]
VCONTS = ["np", "series", "index", "frame1", "series_tz", "nullable", "arrowseries", "pa", "pachunk", "pl", "plframe"]
KCONTS = ["np", "series", "index", "pl", "pa", "pachunk", "arrowseries"]
FAM = {"min": "min", "max": "max", "first": "first", "last": "last", "sum": "sum", "count": "count", "mean": "mean", "size": "count",
       "cumsum": "cumsum", "cummin": "cummin", "cummax": "cummax", "cumcount": "count", "shift": "shift", "diff": "diff",
       "roll_min": "rollext", "roll_max": "rollext", "roll_sum": "rollsum", "roll_mean": "mean", "head": "pick", "tail": "pick", "nth": "pick"}


def compatible(vcont, emb):
    e = EMB[emb]
    if vcont == "series_tz":
        return e.kind == "M"
    if vcont == "nullable":
        return e.kind in "iufb"
    if vcont in ("pl", "plframe"):
        return emb not in ("M8s", "m8s")            # polars has no second resolution
    return True


def vcont_arg(vcont, n):
    if vcont == "pachunkdict":
        return ("pachunkdict", [n // 2, n - n // 2])
    return ("pachunk", [n // 2, n - n // 2]) if vcont == "pachunk" else vcont


def kdraw(rng, keys):
    nulls = NULL in keys
    kenc = rng.pick(["f64", "str", "M8", "cat"]) if nulls else rng.pick(["f64", "i64", "str", "cat", "catperm", "M8"])
    kcont = rng.pick(KCONTS)
    if kenc.startswith("cat"):
        kcont = rng.pick(["np", "series"])
    if kenc == "str" and (kcont == "pl" or keys[0] == NULL):
        kenc = "f64"
    if not nulls and kenc in ("str", "i64") and rng.random() < 0.15:
        kcont = "pachunkdict"       # dictionary-typed arrow chunks with differing dictionaries
    return kenc, kcont


def build(rng, tier):
    red, cum, roll, sel = [], [], [], []
    nmax = 3 if tier == "quick" else 4
    shapes = []
    for n in range(1, nmax + 1):
        allk = list(itertools.product([NULL, 1, 2], repeat=n))
        shapes += [(list(k), n) for k in (allk if n <= 2 and tier == "thorough" else rng.sample(allk, min(len(allk), 3 if tier == "quick" else 30)))]
    for keys, n in shapes:
        for emb in EMBS:
            e = EMB[emb]
            for vcont in VCONTS:
                if not compatible(vcont, emb):
                    continue
                vals = C.adapt_vals(rng, [rng.pick([NULL, 1, 2, 3]) for _ in range(n)], emb)
                kenc, kcont = kdraw(rng, keys)
                kcont_a = vcont_arg(kcont, n)
                # -- reductions
                for op in (["min", "max", "first", "last", "sum", "count", "mean"] if tier == "thorough" else rng.sample(["min", "max", "first", "last", "sum", "count", "mean"], 3)):
                    if not C.api_supported(op, emb) or (op == "sum" and e.kind == "M"):
                        continue
                    c = C.base_case(op, keys, vals, kenc=kenc, emb=emb, tf=int(rng.random() < 0.25))
                    c.update(kcont=kcont_a, vcont=vcont_arg(vcont, n), vname="v", nanull=1)
                    if c["tf"]:
                        c["kcont"] = rng.pick(["np", "series"]) if not kenc.startswith("cat") else "np"
                    if n >= 2 and rng.random() < 0.2 and not kenc.startswith("cat") and c["kcont"] in ("np", "series"):
                        c["T"] = 2
                    if (c.get("T") or isinstance(c["kcont"], tuple)) and rng.random() < 0.5:
                        c["pre"] = ["groups"]       # chunked keys re-coded to global codes (still chunked) by an earlier call
                    red.append(c)
                # -- cumulative
                for op in (["cumsum", "cummin", "cummax"] if tier == "thorough" else [rng.pick(["cumsum", "cummin", "cummax"])]):
                    if op == "cumsum" and (e.kind == "M" or emb.endswith("lo")):
                        continue
                    v = [x % 2 for x in vals] if emb == "bool" else vals
                    cum.append(dict(op=op, keys=keys, vals=v, emb=emb, level="api", kenc=kenc, kcont=kcont_a, vcont=vcont_arg(vcont, n), nanull=1))
                # -- rolling extremes / shift / diff (temporal values are the stated clause; numbers for the others)
                for op in (["min", "max", "shift", "diff"] if tier == "thorough" else rng.sample(["min", "max", "shift", "diff"], 2)):
                    if emb == "bool" or (op == "diff" and e.kind == "u"):
                        continue
                    if e.kind in "iu" and e.base != 0:
                        continue      # (rolling / shifted integers come back as float64: exactness is stated for temporal values only)
                    W = rng.pick([1, 2, 2, 3])
                    roll.append(dict(op=op, W=W, minp=rng.randrange(1, W + 1), keys=keys, vals=vals, emb=emb, level="api", kenc=kenc, kcont=kcont_a, vcont=vcont_arg(vcont, n), nanull=1))
    # -- head / tail / nth: every integer width, bool-free, temporal units, containers that carry an index
    for keys, n in shapes:
        for vdt in ["int8", "int16", "int32", "int64", "uint8", "uint16", "uint32", "uint64", "float32", "float64",
                    "datetime64[s]", "datetime64[ms]", "datetime64[us]", "datetime64[ns]", "timedelta64[s]", "timedelta64[ns]"]:
            for vcont in [None, "series_tz", "arrowseries", "nullable"]:
                if vcont == "series_tz" and not vdt.startswith("datetime"):
                    continue
                if vcont == "nullable" and not (vdt.startswith(("int", "uint", "float"))):
                    continue
                if tier == "quick" and rng.random() < 0.5:
                    continue
                kind, narg = rng.pick([("head", 1), ("head", 2), ("tail", 1), ("nth", 0), ("nth", -1)])
                kenc = rng.pick(["f64", "str", "M8"]) if NULL in keys else rng.pick(["f64", "i64", "str"])
                if kenc == "str" and keys[0] == NULL:
                    kenc = "f64"
                sel.append(dict(kind=kind, n=narg, keys=keys, idx=list(range(n)), ncols=1, kenc=kenc, vdtype=vdt, kcont=rng.pick(["series", "np"]), vcont=vcont))
    return red, cum, roll, sel


def fam_of(t):
    op = t.get("op") or t.get("kind")
    if "W" in t and op in ("min", "max", "sum", "mean"):
        op = "roll_" + op
    return FAM[op]


SRC_KEYS = ("op", "kind", "keys", "vals", "mask", "tf", "oo", "sort", "emb", "kenc", "cfg", "W", "minp", "n", "idx", "family")


def dtype_traces(traces):
    out = []
    for t in traces:
        if t.get("out") == "ok" and "idt" in t and "odt" in t:
            d = {"fam": fam_of(t), "idt": t["idt"], "odt": t["odt"], "src": {k: t.get(k) for k in SRC_KEYS}}
            if t["idt"]["k"] in "mM" and "res" in t:
                d["exact"] = int(not any(x == -998 or x == [-998, 1] for x in t["res"]))
            out.append(d)
    return out


FAMILIES = {"reduce": (api.run_reduce, "Trace_GBCore", lambda: C01.trace_cfg()),
            "cum": (rowwise.run_cum, "Trace_GBCumulative", lambda: C08.TRACE_CFG.format(diag="FALSE")),
            "roll": (rowwise.run_roll, "Trace_GBRolling", lambda: C09.trace_cfg()),
            "select": (rowwise.run_select, "Trace_GBSelect", lambda: C15.TRACE_CFG)}


def case_of(t):
    """the call that produced a (numeric) trace."""
    fam = t.get("family")
    cfg = {k: v for k, v in (t.get("cfg") or {}).items() if v is not None}
    if fam == "reduce":
        c = {k: t[k] for k in ("op", "keys", "vals", "mask", "tf", "oo", "sort", "emb", "kenc")}
    elif fam == "cum":
        c = dict(op=t["op"], keys=t["keys"], vals=t["vals"], emb=t["emb"], mask=t.get("mask") or {"k": "none"})
    elif fam == "roll":
        c = dict(op=t["op"], W=t["W"], minp=t["minp"], keys=t["keys"], vals=t["vals"], emb=t["emb"], mask=t.get("mask") or {"k": "none"})
    else:
        c = dict(kind=t["kind"], n=t["n"], keys=t["keys"], idx=t["idx"])
    c.update(cfg)
    for k in ("kcont", "vcont"):
        if isinstance(c.get(k), list):
            c[k] = tuple(c[k])
    return fam, c


def run(tier):
    ck = CheckRun("C12", tier, rule=(
        "TLC checks the dtype flow machine (GBDtype: container -> NumPy with temporal data viewed as int64, kernel accumulator "
        "dtype, restoration of the remembered logical type; 4 negative configurations) for every dtype x operation family.  Real "
        "calls: every key column over {Null,1,2} up to 2 rows and sampled 3 (4)-row columns x 20 value dtypes (float 32/64, "
        "signed/unsigned 8..64 incl. values at 2^53 and sums beyond 2^31, bool, datetime s/ms/us/ns far from the epoch, "
        "timedelta) x 11 value containers (NumPy, pandas Series/Index/1-column frame NumPy-backed, time zone aware, masked "
        "nullable, Arrow-backed; pyarrow Array/ChunkedArray; polars Series/frame) x drawn key container (7) and key dtype x "
        "reductions, cumulative, rolling extremes/shift/diff, head/tail/nth.  Every call is validated twice by TLC: numbers "
        "and labels against the same deterministic machines as C01/C08/C09/C15 (hence equal across containers), and the logical "
        "result dtype against GBDtype."))
    ck.mc("GBDtype", MC.format(r="FALSE", c="FALSE", u="FALSE", s="FALSE") + INVS, "dtype_flow", workers=2)
    for nm, kw, inv in [("neg_roll_via_float", dict(r="TRUE"), "TemporalExact"), ("neg_count_keeps_temporal", dict(c="TRUE"), "CountIsNumber"),
                        ("neg_forget_unit", dict(u="TRUE"), "SelectionKeepsDtype"), ("neg_narrow_sum", dict(s="TRUE"), "IntSumIs64")]:
        d = dict(r="FALSE", c="FALSE", u="FALSE", s="FALSE")
        d.update(kw)
        ck.mc_bg("GBDtype", MC.format(**d) + f"INVARIANT {inv}\n", nm, expect=inv, workers=1)
    rng = Rng(f"C12-{ck.seed}")
    red, cum, roll, sel = build(rng, tier)
    sched.install()
    warm = lambda cs: [c for c in cs if c.get("vcont") in ("np", None) and c.get("kcont") in ("np", "series") and not c.get("T")][:10]
    all_rej, dts = [], []
    for name, cases, fn, tmod, cfg in [
            ("reduce", red, api.run_reduce, "Trace_GBCore", C01.trace_cfg()),
            ("cum", cum, rowwise.run_cum, "Trace_GBCumulative", C08.TRACE_CFG.format(diag="FALSE")),
            ("roll", roll, rowwise.run_roll, "Trace_GBRolling", C09.trace_cfg()),
            ("select", sel, rowwise.run_select, "Trace_GBSelect", C15.TRACE_CFG)]:
        # one worker per value dtype: kernels that take function arguments are compiled per process
        grp = lambda c: EMB[c["emb"]].dtype.str if "emb" in c else str(c.get("vdtype"))
        traces = ck.drive(fn, cases, warm_cases=warm(cases), group=grp)
        for t in traces:
            t["family"] = name
        key = lambda t: json.dumps([t.get("op") or t.get("kind"), t.get("keys"), t.get("vals"), t.get("emb"), t.get("cfg")])
        rej = ck.validate(tmod, traces, cfg, name, nontrivial=lambda t: (t.get("cfg") or {}).get("vcont") not in (None, "np") or (t.get("cfg") or {}).get("kcont") not in (None, "np"), key=key)
        all_rej += rej
        dts += dtype_traces(traces)
    rej = ck.validate("Trace_GBDtype", dts, TRACE_CFG, "dtypes", nontrivial=lambda t: True, key=lambda t: json.dumps([t["fam"], t["idt"], t["src"]["cfg"]]))
    all_rej += rej
    ck.notes["dtype_traces"] = len(dts)
    ck.judge(all_rej, None, {})
    ck.assumptions += ["the logical dtype [kind, width, unit, time zone] of an input / result is read by gbverif/abstract.py:dtdesc from NumPy, pandas (incl. "
                       "DatetimeTZDtype, ArrowDtype, masked dtypes), polars and pyarrow types",
                       "result dtypes are judged only where the property states them (selection-type reductions, cumulative extremes, head/tail/nth: "
                       "the input's; temporal shift / rolling extremes: the input's; temporal diff: the duration of the same unit; integer sums: 64 bit; counts: int64)",
                       "polars has no second resolution and NumPy integers carry no nulls: those (container, dtype, null) combinations are not inputs"]
    return ck.finish()


def replay(path):
    t = json.load(open(path))
    src = t["src"] if "fam" in t else t
    fam, case = case_of(src)
    fn, tmod, cfg = FAMILIES[fam]
    sched.install()
    tr = fn(case)
    tr["family"] = fam
    print(json.dumps(tr)[:2000])
    acc, _, _ = tlc.validate(tmod, [tr], "C12_replay_num", cfg())
    ok = 0 in acc
    dts = dtype_traces([tr])
    if dts:
        acc2, _, _ = tlc.validate("Trace_GBDtype", dts, "C12_replay_dtype", TRACE_CFG)
        ok = ok and 0 in acc2
        print("dtype trace:", json.dumps({k: dts[0][k] for k in ("fam", "idt", "odt")}))
    if ok:
        print("replay: trace accepted by the specification")
        return 0
    print(f"VIOLATION property=C12 replay={path}")
    return 1
