"""C16 -- variance, quantiles and composite statistics match their definitions."""
import itertools
import json

from .. import cases as C
from .. import sched
from ..core import CheckRun
from ..domains import Rng, pairs_upto
from ..drivers import api, stats
from ..env import NULL
from . import C01

MC = "SPECIFICATION Spec\nCHECK_DEADLOCK FALSE\nCONSTANTS\n  Vals <- ValsNeg\n  MaxRows = %d\nINVARIANT AccIsDef\nINVARIANT OnePassIsTwoPass\nINVARIANT VarNonNegative\n"
APPLY_CFG = "SPECIFICATION TraceSpec\nCHECK_DEADLOCK FALSE\nCONSTANTS\n  LabelIds = {1}\n  NKeys = 1\n  Vals = {1}\n  MaxRows = 0\n  KernelSet = {\"sum\"}\n  ObservedByValueCount = FALSE\n"
PLAIN_CFG = "SPECIFICATION TraceSpec\nCHECK_DEADLOCK FALSE\n"


def bool_or_none(rng, n):
    return C.NONE if rng.random() < 0.5 else {"k": "bool", "b": [rng.randrange(2) for _ in range(n)]}


def var_cases(rng, tier):
    nmax = 3 if tier == "quick" else 4
    mbn = C.masks_by_n(6)
    out = []
    for keys, vals in pairs_upto(C.KEYS1, [NULL, 1, 2, 3], nmax):
        n = len(keys)
        for op in ("var", "std"):
            for ddof in (0, 1):
                if tier == "quick" and n == 3 and rng.random() < 0.5:
                    continue
                c = C.base_case(op, keys, vals, ddof=ddof)
                out.append(c)
        c = C.base_case(rng.pick(["var", "std"]), keys, [(-2 if v == 3 and rng.random() < 0.5 else v) for v in vals], ddof=rng.randrange(2),
                        mask=C.draw_mask(rng, n, mbn, pos_in_range=True), kenc=rng.pick(["f64", "str", "cat"]),
                        emb=rng.pick(["f64", "f32", "i64", "i32"]) if NULL not in vals else rng.pick(["f64", "f32"]), tf=int(rng.random() < 0.2))
        c["keys"] = [[k] for k in C.adapt_keys(rng, keys, c["kenc"][0])]
        if c["tf"]:
            c["kcont"] = "np"
        if n >= 2 and rng.random() < 0.3 and c["kenc"][0] != "cat" and not (c["kenc"][0] == "str" and c["keys"][0][0] == NULL) and c["mask"]["k"] != "pos" \
                and not (c["mask"]["k"] == "slice" and c["mask"]["s"][2] not in (-997, 1)):
            c["T"] = 2          # chunk-wise factorized key
        out.append(c)
    for _ in range(1500 if tier == "quick" else 20000):
        n = rng.randrange(4, 30)
        keys = [rng.pick([NULL, 1, 2, 3]) for _ in range(n)]
        vals = [rng.pick([NULL, -2, -1, 0, 1, 2, 3]) for _ in range(n)]
        out.append(C.base_case(rng.pick(["var", "std"]), keys, vals, ddof=rng.randrange(2), mask=bool_or_none(rng, n)))
    # value containers: missing values as NaN, as pandas NA (Float64 / Int64), as arrow / polars nulls
    for c in out:
        if c["emb"] == "f64" and not c.get("tf") and rng.random() < 0.5:
            c["vcont"] = rng.pick(["series", "nullable", "nullable_int", "arrow_int", "arrowseries", "pl", "pa"])
            c["nanull"] = 1
    return out


def offset_cases(rng, tier):
    """rounding clause: |var - exact| <= 8 n eps max|x|^2 / (n - ddof), sampled over magnitudes (harness arithmetic
    on the logged floats; the exact value is the specification's rational)."""
    out = []
    for k in (0, 3, 6, 8):
        for scale in (1, 1000):
            for _ in range(40 if tier == "quick" else 400):
                n = rng.randrange(3, 12)
                keys = [rng.pick([1, 2]) for _ in range(n)]
                vals = [rng.pick([NULL, 0, 1, 2, 3]) for _ in range(n)]
                out.append(dict(keys=keys, vals=vals, k=k, scale=scale, ddof=rng.randrange(2)))
    # integer values whose group sums leave the 32-bit range (their squares leave the 64-bit range)
    for k in (9, 10):
        for dt in ("int64", "int32", "uint32"):
            if dt != "int64" and k == 10:
                continue
            for _ in range(20 if tier == "quick" else 200):
                n = rng.randrange(3, 12)
                keys = [rng.pick([1, 2]) for _ in range(n)]
                vals = [rng.pick([0, 1, 2, 3]) for _ in range(n)]
                out.append(dict(keys=keys, vals=vals, k=k, scale=1, ddof=rng.randrange(2), dtype=dt))
    return out


def apply_cases(rng, tier):
    out = []
    nmax = 3 if tier == "quick" else 4
    for keys, vals in pairs_upto(C.KEYS1, [NULL, 1, 2], nmax):
        n = len(keys)
        if n == 0:
            continue
        for fk in ("scalar", "fixed", "aligned", "median", "quantile"):
            if n == 3 and rng.random() < (0.7 if tier == "quick" else 0.3):
                continue
            tf = int(fk in ("scalar", "median") and rng.random() < 0.3)
            kenc = rng.pick(["f64", "str", "cat"])
            out.append(dict(fkind=fk, keys=[[k] for k in C.adapt_keys(rng, keys, kenc)], kenc=[kenc], vals=list(vals), mask=bool_or_none(rng, n), tf=tf,
                            vcont=rng.pick(["np", "series"]) if not tf else "np"))
            if n >= 2 and rng.random() < 0.25 and kenc != "cat" and not (kenc == "str" and keys[0] == NULL):
                out[-1]["T"] = 2          # chunk-wise factorized key
            if fk == "quantile":
                out[-1]["q"] = rng.pick([[0.25, 0.5], [0.9, 0.1, 0.5], [0.75, 0.25], [0.5], [0.0, 1.0], [1.0, 0.0]])
    for _ in range(800 if tier == "quick" else 8000):
        n = rng.randrange(4, 14)
        keys = [rng.pick([NULL, 1, 2, 3]) for _ in range(n)]
        vals = [rng.pick([NULL, 1, 2, 3]) for _ in range(n)]
        fk = rng.pick(["scalar", "fixed", "aligned", "median", "quantile"])
        out.append(dict(fkind=fk, keys=[[k] for k in keys], kenc=["f64"], vals=vals, mask=bool_or_none(rng, n), tf=int(fk in ("scalar", "median") and rng.random() < 0.3)))
    return out


def compose_cases(rng, tier):
    out = []
    for _ in range(1200 if tier == "quick" else 12000):
        n = rng.randrange(1, 9)
        keys = [rng.pick([NULL, 1, 2, 3]) for _ in range(n)]
        vals = [rng.pick([NULL, 1, 2, 3]) for _ in range(n)]
        kind = rng.pick(["agg", "ratio", "density", "density"])
        c = dict(kind=kind, keys=[[k] for k in keys], kenc=[rng.pick(["f64", "str"])], vals=vals, mask=bool_or_none(rng, n))
        if kind == "agg":
            c["funcs"] = rng.sample(["sum", "mean", "min", "max", "count", "first", "last"], rng.randrange(2, 4))
        elif kind == "ratio":
            c["vals2"] = [NULL if v == NULL else rng.pick([1, 2, 3]) for v in vals]
        else:
            c["dvals"] = int(rng.random() < 0.5)
            if c["dvals"]:
                c["vals"] = [rng.pick([1, 2, 3]) for _ in range(n)]
        out.append(c)
    return out


def run_offsets(cases):
    """the sampled rounding clause (not decided by TLC: floating point is outside TLA+)."""
    import numpy as np
    from fractions import Fraction
    from groupby_lib import GroupBy
    bad = []
    for c in cases:
        base = 10.0 ** c["k"] if c["k"] else 0.0
        x = np.array([np.nan if v == NULL else base + v * c["scale"] for v in c["vals"]])
        if c.get("dtype"):
            x = np.array([int(base) + v * c["scale"] for v in c["vals"]], dtype=c["dtype"])
        r = GroupBy(np.array(c["keys"], dtype=float)).var(x, ddof=c["ddof"])
        for g, got in zip(r.index.tolist(), r.tolist()):
            vs = [Fraction(int(v) * c["scale"]) for v, k in zip(c["vals"], c["keys"]) if k == g and v != NULL]
            n = len(vs)
            if n - c["ddof"] <= 0:
                if got == got:
                    bad.append((c, g, got, "expected null"))
                continue
            m = sum(vs) / n
            exact = float(sum((v - m) ** 2 for v in vs) / (n - c["ddof"]))
            bound = 8 * n * 2.0 ** -52 * max(abs(base + float(v)) for v in vs) ** 2 / (n - c["ddof"]) + 1e-12
            if not (abs(got - exact) <= bound):
                bad.append((c, g, got, exact, bound))
    return bad


def run(tier):
    ck = CheckRun("C16", tier, rule=(
        "var/std with ddof 0/1 on every (keys, values) pair over {Null,1,2,3} up to length 3 (4), drawn masks/dtypes/"
        "transform and random rows with negative values up to length 30, compared as exact rationals with the two-pass "
        "definition; apply with recording functions (scalar, fixed-length vector, input-aligned vector) and median/quantile "
        "on every pair over {Null,1,2} up to length 3 (4) + random rows: the sequences handed to f and the placement of f's "
        "order-sensitive checksum are validated by TLC; agg lists, ratio and density against the primitive calls; the "
        "rounding clause is sampled over offsets 0, 1e3, 1e6, 1e8 and scales 1, 1e3."))
    ck.mc_bg("GBStats", MC % (5 if tier == "quick" else 7), "one_pass_identity")
    sched.install()
    rng = Rng(f"C16-{ck.seed}")
    vc = var_cases(rng, tier)
    tv = ck.drive(api.run_reduce, vc, warm_cases=[c for c in vc if c["emb"] == "f64" and c["mask"]["k"] == "none"][:20])
    rej = ck.validate("Trace_GBCore", tv, C01.trace_cfg(), "var_std", nontrivial=C.nontrivial_api)
    ck.judge(rej, "Trace_GBCore", {})
    ac = apply_cases(rng, tier)
    ta = ck.drive(stats.run_apply, ac, warm_cases=ac[:10])
    rej = ck.validate("Trace_GBApply", ta, APPLY_CFG, "apply", nontrivial=C.nontrivial_api)
    ck.judge(rej, "Trace_GBApply", {})
    cc = compose_cases(rng, tier)
    tc = ck.drive(stats.run_compose, cc, warm_cases=cc[:10])
    rej = ck.validate("Trace_GBCompose", tc, PLAIN_CFG, "compose", nontrivial=C.nontrivial_api)
    ck.judge(rej, "Trace_GBCompose", {})
    oc = offset_cases(rng, tier)
    bad = run_offsets(oc)
    ck.evaluations += len(oc)
    ck.notes["rounding_clause_samples"] = len(oc)
    for b in bad[:10]:
        ck.add_violation({"family": "rounding", "case": b[0], "group": b[1], "got": b[2], "detail": [str(x) for x in b[3:]]})
    ck.exhaustive = True
    ck.assumptions += ["floats recovered as rationals (limit_denominator 1e6, 1e-12 guard); the rounding clause is sampled over magnitudes and judged by harness arithmetic (floating point is outside TLA+)",
                       "median/quantile: equality of GroupBy.median/quantile with GroupBy.apply(np.median/np.quantile) is observed by the driver; apply's contract is TLC's"]
    return ck.finish()


def replay(path):
    t = json.load(open(path))
    print("re-run ./check C16 (aggregated families); trace:", json.dumps(t)[:600])
    return 0
