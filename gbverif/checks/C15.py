"""C15 -- head/tail/nth select exactly the requested rows of each group."""
import itertools
import json

from .. import sched
from ..core import CheckRun
from ..domains import Rng
from ..drivers import rowwise
from ..env import NULL

MC = """SPECIFICATION Spec
CHECK_DEADLOCK FALSE
CONSTANTS
  Groups = {groups}
  MaxRows = {rows}
  NArgs <- {nargs}
  SeenBits = {bits}
INVARIANT SelectIsDef
INVARIANT NoNullKeyPicked
"""
TRACE_CFG = """SPECIFICATION TraceSpec
CHECK_DEADLOCK FALSE
CONSTANTS
  Groups = {1, 2, 3, 4, 5}
  MaxRows = 0
  NArgs <- NArgsSmall
  SeenBits = 0
INVARIANT TraceInv
"""


def mk(rng, kind, n, keys, tier):
    m = len(keys)
    style = rng.pick(["range", "shuffled", "dups", "sorted_dups", "range_off"])
    if style == "range":
        idx = list(range(m))
    elif style == "range_off":        # a RangeIndex that does not start at 0 / has a step (a slice of a longer frame)
        start, step = rng.pick([(150, 1), (3, 2), (40, -1)])
        idx = list(range(start, start + step * m, step))
    elif style == "shuffled":
        idx = list(range(10, 10 + m))
        rng.shuffle(idx)
    elif style == "dups":
        idx = [rng.randrange(0, max(1, m // 2 + 1)) for _ in range(m)]
    else:
        idx = sorted(rng.randrange(0, max(1, m // 2 + 1)) for _ in range(m))
    rangeidx = [idx[0], idx[1] - idx[0] if m > 1 else 1] if (style == "range_off" and m > 0) else ([0, 1] if style == "range" and rng.random() < 0.5 else None)
    c = dict(kind=kind, n=n, keys=list(keys), idx=idx, rangeidx=rangeidx, ncols=rng.pick([1, 1, 2]),
             kenc=(rng.pick(["f64", "str", "M8", "cat"]) if NULL in keys else rng.pick(["f64", "i64", "str", "cat"])),
             vdtype=rng.pick(["float64", "int64", "float32"]), kcont=rng.pick(["series", "np"]))
    if rng.random() < 0.3:
        # keep_input_index=False: rows listed group by group (label order; first appearance when sort=False)
        c["keep"], c["sort"] = 0, (0 if rng.random() < 0.3 and c["kenc"] != "cat" else 1)
    if m >= 4 and rng.random() < 0.3 and not (c["kenc"] == "str" and keys[0] == NULL):
        # (string keys with a leading null on the chunk-wise route fail in the constructor: known finding of C02)
        c["T"] = rng.pick([2, 4])
    return c


def scaled_cases(tier):
    """group sizes straddling the candidate counter widths 2^7, 2^15, 2^16 (and beyond)."""
    out = []
    sizes = [127, 128, 129, 255, 256, 257, 32767, 32768, 32769, 65535, 65536, 65537] + ([131073, 200000] if tier == "thorough" else [70000])
    for s in sizes:
        runs_a = [[1, s]]                                  # one big group
        runs_b = [[1, s // 2], [2, 3], [NULL, 2], [1, s - s // 2], [2, 1]]   # interleaved with a small group and nulls
        for runs in (runs_a, runs_b):
            for kind, n in (("head", 2), ("tail", 2), ("nth", 0), ("nth", 3), ("nth", -1), ("nth", -3),
                            ("nth", s - 1), ("nth", s), ("nth", -s), ("nth", s // 2 + 5), ("nth", 127), ("nth", 128), ("nth", 32767), ("nth", 32768), ("nth", 65535), ("nth", 65536)):
                if tier == "quick" and s > 300 and kind == "nth" and n in (127, 128, -3, 3):
                    continue
                out.append(dict(kind=kind, n=n, runs=runs, kenc="f64", vdtype="float64", kcont="np"))
    return out


def build_cases(tier, seed):
    rng = Rng(f"C15-{seed}")
    cases = []
    nmax = 4 if tier == "quick" else 6
    for m in range(0, nmax + 1):
        for keys in itertools.product([NULL, 1, 2], repeat=m):
            for kind in ("head", "tail", "nth"):
                for n in (range(0, m + 2) if kind != "nth" else range(-(m + 1), m + 2)):
                    if m >= 5 and rng.random() < 0.6:
                        continue
                    cases.append(mk(rng, kind, n, keys, tier))
    for _ in range(2500 if tier == "quick" else 30000):
        m = rng.randrange(5, 40)
        keys = [rng.pick([NULL, 1, 2, 3]) for _ in range(m)]
        kind = rng.pick(["head", "tail", "nth"])
        n = rng.randrange(0, 8) if kind != "nth" else rng.randrange(-8, 8)
        cases.append(mk(rng, kind, n, keys, tier))
    return cases, scaled_cases(tier)


def nontrivial(t):
    if "runs" in t:
        return True
    ks = {k for k in t["keys"] if k != NULL}
    return len(ks) >= 2 or NULL in t["keys"] or t["idx"] != list(range(len(t["idx"])))


def run(tier):
    ck = CheckRun("C15", tier, rule=(
        "every key sequence over {Null,1,2} up to length 4 (quick) / 6 (thorough, 40% of n>=5) x head/tail(n in 0..len+1) and "
        "nth(n in -(len+1)..len+1), with arbitrary input indexes (range, shuffled, duplicated, sorted with duplicates), 1-2 "
        "value columns, key dtypes, chunked keys; random rows up to 40; plus scaled replays: groups of 127..70000 (thorough "
        "200000) rows straddling the 2^7/2^15/2^16 counter widths, requests at and after the wrap, validated by TLC "
        "against the definition evaluated on run-length encoded keys.  Values encode the row position, so row identity, "
        "index label and 'unmodified values' are all observed."))
    if tier == "quick":
        ck.mc_bg("GBSelect", MC.format(groups="{1, 2}", rows=6, nargs="NArgsFull", bits=0), "scan_n6")
    else:
        ck.mc("GBSelect", MC.format(groups="{1, 2}", rows=9, nargs="NArgsFull", bits=0), "scan_n9", timeout=7200, heap="24g")
    ck.mc_bg("GBSelect", MC.format(groups="{1}", rows=6, nargs="NArgsFull", bits=2), "neg_counter_2bits", expect="SelectIsDef", workers=1)

    sched.install()
    cases, scaled = build_cases(tier, ck.seed)
    traces = ck.drive(rowwise.run_select, cases, warm_cases=cases[:40])
    tr_scaled = ck.drive(rowwise.run_select, scaled, procs=8 if len(scaled) > 16 else 1)
    ck.exhaustive = True
    ck.notes["scaled_replays"] = len(scaled)
    rej = ck.validate("Trace_GBSelect", traces + tr_scaled, TRACE_CFG, "traces", nontrivial=nontrivial)
    ck.judge(rej, None, {})
    # the array-level kernels numba.find_first_n / find_last_n (position matrix per group), with boolean masks: a masked row is
    # scanned like a null-key row
    rng = Rng(f"C15k-{ck.seed}")
    kc = []
    for m in range(0, 5 if tier == "quick" else 6):
        for codes in itertools.product([-1, 0, 1], repeat=m):
            for fn in ("first", "last"):
                for n in range(1, m + 2):
                    if m >= 4 and rng.random() < 0.5:
                        continue
                    kc.append(dict(fn=fn, codes=list(codes), ngroups=rng.pick([2, 3]), n=n, sel=rng.pick([None, [rng.randrange(2) for _ in range(m)], [rng.randrange(2) for _ in range(m)]])))
    for _ in range(800 if tier == "quick" else 10000):
        m = rng.randrange(5, 40)
        kc.append(dict(fn=rng.pick(["first", "last"]), codes=[rng.pick([-1, 0, 1, 2, 3]) for _ in range(m)], ngroups=rng.pick([4, 5]), n=rng.randrange(1, 8),
                       sel=rng.pick([None, [int(rng.random() < 0.7) for _ in range(m)]])))
    tk = ck.drive(rowwise.run_find_n, kc, warm_cases=kc[:10])
    ck.notes["kernel_find_n_calls"] = len(tk)
    rej = ck.validate("Trace_GBSelect", tk, TRACE_CFG, "kernel_find_n", nontrivial=lambda t: 0 in t["sel"] or NULL in t["keys"] or len(set(t["keys"])) > 1,
                      key=lambda t: json.dumps([t["kind"], t["n"], t["keys"], t["sel"], t["ngroups"]]))
    ck.judge(rej, None, {})
    ck.assumptions += ["row identity is carried by the values (value = row position); group sizes >= 2^31 are out of reach"]
    return ck.finish()


def replay(path):
    t = json.load(open(path))
    case = dict(kind=t["kind"], n=t["n"])
    for k in ("keys", "idx", "runs"):
        if k in t:
            case[k] = t[k]
    case.update({k: v for k, v in t["cfg"].items() if v is not None})
    tr = rowwise.run_select(case)
    from .. import tlc
    acc, _, _ = tlc.validate("Trace_GBSelect", [tr], "C15_replay", TRACE_CFG)
    print(json.dumps(tr)[:2000])
    if 0 in acc:
        print("replay: trace accepted by the specification")
        return 0
    print(f"VIOLATION property=C15 replay={path}")
    return 1
