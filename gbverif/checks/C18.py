"""C18 -- misaligned inputs are rejected, never silently mis-grouped."""
import json

from .. import sched
from ..core import CheckRun
from ..drivers import validate

MC = "SPECIFICATION Spec\nCHECK_DEADLOCK FALSE\nCONSTANTS\n  Deltas <- DeltaSet\n  SkipLengthCheck = {l}\n  SkipIndexCheck = {i}\nINVARIANT MisalignedRejected\nINVARIANT AlignedAccepted\n"
TRACE_CFG = "SPECIFICATION TraceSpec\nCHECK_DEADLOCK FALSE\nCONSTANTS\n  Deltas <- DeltaSet\n  SkipLengthCheck = {l}\n  SkipIndexCheck = {i}\n"


def run(tier):
    ck = CheckRun("C18", tier, rule=(
        "every public operation (9 reductions, size, transform, agg, apply, median, quantile, cumsum/cummin/cummax/cumcount, "
        "rolling sum/mean/min/max, shift, diff, ema plain and time-weighted (row and group-sorted layouts), head/tail/nth with and without the input index, "
        "ratio, subset_ratio, density, group_nearby_members, facade aggregations) x each array argument (values, an element of "
        "a collection, boolean mask, timestamps, second values, subset mask) x length off by -2..+2 x pandas index identical / "
        "permuted / shifted / duplicated / absent x the other arguments as Series or plain arrays x float / datetime / tz-aware values: the whole domain is executed; the outcome (return / any exception) is "
        "replayed through GBValidate's pipeline."))
    ck.mc("GBValidate", MC.format(l="FALSE", i="FALSE"), "pipeline", workers=2)
    ck.mc_bg("GBValidate", MC.format(l="TRUE", i="FALSE"), "neg_no_length_check", expect="MisalignedRejected", workers=1)
    ck.mc_bg("GBValidate", MC.format(l="FALSE", i="TRUE"), "neg_no_index_check", expect="MisalignedRejected", workers=1)
    sched.install()
    cases = validate.all_cases()
    traces = ck.drive(validate.run_case, cases, warm_cases=[], procs=16)
    rej = ck.validate("Trace_GBValidate", traces, TRACE_CFG.format(l="FALSE", i="FALSE") + "INVARIANT TraceInv\n", "outcomes",
                      nontrivial=lambda t: t["delta"] != 10 or t["idxrel"] not in ("identical", "none"), key=lambda t: json.dumps([t["op"], t["arg"], t["delta"], t["idxrel"], t.get("cfg")]))
    dev = {"C18-length-not-checked": TRACE_CFG.format(l="TRUE", i="FALSE"), "C18-index-not-checked": TRACE_CFG.format(l="FALSE", i="TRUE")}
    ck.judge(rej, "Trace_GBValidate", dev)
    ck.exhaustive = True
    ck.notes["operations"] = sorted({t["op"] for t in traces})
    ck.assumptions += ["any exception counts as a rejection; a result object that can be measured with len() counts as a return"]
    return ck.finish()


def replay(path):
    t = json.load(open(path))
    tr = validate.run_case(dict(op=t["op"], arg=t["arg"], delta=t["delta"] - 10, idxrel=t["idxrel"]))
    from .. import tlc
    acc, _, _ = tlc.validate("Trace_GBValidate", [tr], "C18_replay", TRACE_CFG.format(l="FALSE", i="FALSE"))
    print(json.dumps(tr))
    if 0 in acc:
        print("replay: trace accepted by the specification")
        return 0
    print(f"VIOLATION property=C18 replay={path}")
    return 1
