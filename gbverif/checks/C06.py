"""C06 -- rows with a null key never influence any group."""
import itertools
import json

from .. import cases as C
from .. import sched
from ..abstract import EMB
from ..core import CheckRun
from ..domains import Rng
from ..drivers import api, factorize, rowwise
from ..env import JUNK, NULL
from . import C01, C02, C08, C09, C10, C15


def deleted(case, keep, row_fields=("keys", "vals", "times", "idx")):
    f = dict(case)
    for k in row_fields:
        if k in case and case[k] is not None:
            f[k] = [case[k][i] for i in keep]
    m = case.get("mask", {"k": "none"})
    if m["k"] == "bool":
        f["mask"] = {"k": "bool", "b": [m["b"][i] for i in keep]}
    f["pair"] = "deleted"
    return f


def key_patterns(rng, n, nkeys):
    """key rows with nulls at every subset of positions / in every component."""
    if nkeys == 1:
        for ks in itertools.product([NULL, 1, 2], repeat=n):
            if NULL in ks:
                yield [[k] for k in ks]
    else:
        for _ in range(40):
            rows = []
            for _ in range(n):
                r = [rng.pick([1, 2]) for _ in range(nkeys)]
                if rng.random() < 0.5:
                    r[rng.randrange(nkeys)] = NULL
                rows.append(r)
            if any(NULL in r for r in rows):
                yield rows


def reduce_pairs(rng, tier):
    mbn = C.masks_by_n(6)
    out = []
    embs = C.API_EMBS_Q if tier == "quick" else C.API_EMBS
    nmax = 4 if tier == "quick" else 5
    for n in range(1, nmax + 1):
        for nkeys in (1, 2, 3):
            for rows in key_patterns(rng, n, nkeys):
                if nkeys == 1 and n >= 4 and rng.random() < (0.7 if tier == "quick" else 0.3):
                    continue
                vals = [rng.pick(C.VALS) for _ in range(n)]
                base = C01.draw_cover(rng, [r[0] for r in rows], vals, mbn, embs, strategy=False)
                kencs = [rng.pick(["f64", "str", "M8", "cat"]) for _ in range(nkeys)]
                base["keys"], base["kenc"] = [list(r) for r in rows], kencs
                if base["mask"]["k"] not in ("none", "bool"):
                    base["mask"] = C.NONE
                base["tf"] = 1 if rng.random() < 0.3 else 0
                base["oo"] = 1
                if base["tf"]:
                    base["kcont"] = "np"
                if base["tf"] and nkeys == 1 and n >= 2 and rng.random() < 0.6:
                    # transform on chunk-wise factorized keys: the null slot of the merged per-chunk results is what null-key rows read
                    base["kenc"] = kencs = [rng.pick(["f64", "M8"] if rows[0][0] == NULL else ["f64", "M8", "str"])]
                    base["T"] = 2
                    if base["op"] in ("size", "count") and rng.random() < 0.7:
                        base["op"] = rng.pick(["sum", "min", "max", "first", "last"])
                elif nkeys == 1 and n >= 2 and rng.random() < 0.3 and not kencs[0].startswith("cat"):
                    base["T"] = 2
                keep = [i for i, r in enumerate(rows) if NULL not in r]
                f = deleted(base, keep)
                if "T" in f and f["kenc"][0] == "str" and f["keys"] and NULL in f["keys"][0]:
                    base.pop("T"); f.pop("T")
                out.append((base, f))
    return out


def rowwise_pairs(rng, tier, builder, nmax, extra):
    out = []
    for n in range(1, nmax + 1):
        for ks in itertools.product([NULL, 1, 2], repeat=n):
            if NULL not in ks:
                continue
            if n >= 4 and rng.random() < (0.6 if tier == "quick" else 0.2):
                continue
            vals = [rng.pick([NULL, 1, 2, 3]) for _ in range(n)]
            sel = [1] * n if rng.random() < 0.7 else [rng.randrange(2) for _ in range(n)]
            c = builder(rng, list(ks), vals, sel)
            c.pop("layout", None)
            c.pop("T", None)
            keep = [i for i, k in enumerate(ks) if k != NULL]
            out.append((c, deleted(c, keep)))
    for _ in range(extra):
        n = rng.randrange(4, 12)
        ks = [rng.pick([NULL, NULL, 1, 2]) for _ in range(n)]
        vals = [rng.pick([NULL, 1, 2, 3]) for _ in range(n)]
        sel = [1] * n if rng.random() < 0.6 else [rng.randrange(2) for _ in range(n)]
        c = builder(rng, ks, vals, sel)
        c.pop("layout", None)
        c.pop("T", None)
        keep = [i for i, k in enumerate(ks) if k != NULL]
        out.append((c, deleted(c, keep)))
    return out


def select_pairs(rng, tier):
    out = []
    for n in range(1, 6):
        for ks in itertools.product([NULL, 1, 2], repeat=n):
            if NULL not in ks or (n >= 4 and rng.random() < 0.6):
                continue
            kind = rng.pick(["head", "tail", "nth"])
            c = C15.mk(rng, kind, rng.randrange(0, n + 1) if kind != "nth" else rng.randrange(-n, n + 1), list(ks), tier)
            keep = [i for i, k in enumerate(ks) if k != NULL]
            out.append((c, deleted(c, keep)))
    return out


def groups_cases(rng, tier):
    out = []
    for n in range(1, 6):
        for nkeys in (1, 2):
            for rows in key_patterns(rng, n, nkeys):
                if n >= 4 and rng.random() < 0.7:
                    continue
                kenc = [rng.pick(["f64", "str"]) for _ in range(nkeys)]
                c = dict(keys=rows, kenc=kenc, kcont="np", sort=rng.randrange(2), T=(rng.pick([10 ** 6, 2]) if nkeys == 1 and not (kenc[0] == "str" and NULL in rows[0]) else 10 ** 6), target="gb", view="groups")
                keep = [i for i, r in enumerate(rows) if NULL not in r]
                f = dict(c, keys=[rows[i] for i in keep], pair="deleted")
                if f["T"] == 2 and kenc[0] == "str" and f["keys"] and NULL in f["keys"][0]:
                    pass
                out.append((c, f))
    return out


MARKER_CFG = "SPECIFICATION TraceSpec\nCHECK_DEADLOCK FALSE\n"
NEARBY_MC = ("SPECIFICATION Spec\nCHECK_DEADLOCK FALSE\nCONSTANTS\n  Groups = {{1, 2}}\n  Vals = {{0, 1, 2, 3}}\n  MaxRows = {rows}\n  MaxDiffs = {{0, 1}}\n"
             "  NullKeyIsLastGroup = {dev}\nINVARIANT NearbyIsDef\nPROPERTY NullKeyIsStutter\n")
NEARBY_TRACE = ("SPECIFICATION TraceSpec\nCHECK_DEADLOCK FALSE\nCONSTANTS\n  Groups = {1, 2, 3, 4}\n  Vals = {0}\n  MaxRows = 0\n  MaxDiffs = {0}\n"
                "  NullKeyIsLastGroup = FALSE\n")


def nearby_pairs(rng, tier):
    """group_nearby_members with every null placement: (with nulls, null rows deleted)."""
    out = []
    for n in range(1, 6 if tier == "quick" else 7):
        for ks in itertools.product([NULL, 1, 2], repeat=n):
            if NULL not in ks or (n >= 4 and rng.random() < (0.6 if n == 4 else 0.85)):
                continue
            vals, v = [], 0
            for _ in range(n):
                v += rng.pick([0, 1, 1, 2, 3])
                vals.append(v)
            c = dict(keys=list(ks), vals=vals, maxdiff=rng.pick([0, 1, 2]), vdt=rng.pick(["float64", "int64"]))
            r = rng.random()
            if r < 0.3:
                c["level"] = "numba"
            else:
                c["kenc"] = rng.pick(["f64", "str", "M8", "cat"])
                c["kcont"] = rng.pick(["np", "series"])
                if n >= 2 and rng.random() < 0.4 and not c["kenc"].startswith("cat"):
                    c["T"] = 2
                c["pre"] = rng.pick([[], [], ["groups"], ["cumsum"], ["sum", "groups"]])
            keep = [i for i, k in enumerate(ks) if k != NULL]
            f = dict(c, keys=[ks[i] for i in keep], vals=[vals[i] for i in keep], pair="deleted")
            if f.get("T") and f.get("kenc") == "str" and f["keys"] and f["keys"][0] == NULL:
                f.pop("T")
            out.append((c, f))
    return out


def run(tier):
    ck = CheckRun("C06", tier, rule=(
        "with-null / null-rows-deleted call pairs: reductions and transform with nulls at every subset of row positions "
        "(single key, length <= 4 (5)) and in every component of 2- and 3-key tuples, flat and chunked keys; cumulative, "
        "rolling/shift/diff, EMA (plain and timed), head/tail/nth, group_nearby_members and the groups mapping with every null placement up to "
        "length 4 (5) plus random longer rows.  Both calls of a pair are validated by TLC against the same specification "
        "(where a null-key row is a stutter of every machine); the values observed at null-key rows are collected per "
        "(operation, dtype, entry point) and TLC checks that they are one constant."))
    rng = Rng(f"C06-{ck.seed}")
    # null-key rows are stutters: action properties of the machines (negative configs prove they bite)
    ck.mc_bg("GBCumulative", C08.MC.format(groups="{1, 2}", vals="{1}", rows=3, ops='{"cumsum", "cummax"}', leak="FALSE"), "cum_stutter", workers=2)
    ck.mc_bg("GBCumulative", C08.MC.format(groups="{1, 2}", vals="{1}", rows=3, ops='{"cumsum"}', leak="TRUE"), "neg_cum_state_leaks", expect="OnlyOwnGroup", workers=1)
    ck.mc_bg("GBEma", C10.MC.format(groups="{1, 2}", vals="{1}", rows=3, betas="HalfBeta", gaps="{1}", md="FALSE", nk="TRUE"), "neg_ema_null_key_leaks", expect="GroupsIndependent", workers=1)
    ck.mc_bg("GBCore", C01.MC.format(labels="{1, 2}", nkeys=2, vals="{1}", rows=3, kernels='{"sum", "first"}', obv="FALSE"), "core_2keys_null_stutter", workers=4)
    ck.mc_bg("GBFactorize", C02.MC.format(labels="{1, 2}", nkeys=2, rows=3, chunks=1, d3="FALSE", d6="FALSE", d2="TRUE"), "neg_last_key_null", expect="FinalFaithful", workers=1)
    ck.mc_bg("GBFactorize", C02.MC.format(labels="{1, 2}", nkeys=1, rows=4, chunks=2, d3="FALSE", d6="TRUE", d2="FALSE"), "neg_unify_wraps_null", expect="FinalFaithful", workers=1)

    ck.mc_bg("GBNearby", NEARBY_MC.format(rows=4 if tier == "quick" else 5, dev="FALSE"), "nearby_null_stutter", workers=4)
    ck.mc_bg("GBNearby", NEARBY_MC.format(rows=3, dev="TRUE"), "neg_nearby_null_is_last_group", expect="NearbyIsDef", workers=1)

    sched.install()
    nmax = 4 if tier == "quick" else 5
    extra = 500 if tier == "quick" else 6000
    fams = {
        "reduce": (reduce_pairs(rng, tier), api.run_reduce, "Trace_GBCore", C01.trace_cfg()),
        "cum": (rowwise_pairs(rng, tier, lambda r, k, v, s: C08.mk(r, r.pick(C08.OPS), k, v, s, C08.EMBS_Q), nmax, extra), rowwise.run_cum, "Trace_GBCumulative", C08.TRACE_CFG.format(diag="FALSE")),
        "roll": (rowwise_pairs(rng, tier, lambda r, k, v, s: C09.mk(r, r.pick(C09.OPS), *C09.wm(r), k, v, s, tier), nmax, extra), rowwise.run_roll, "Trace_GBRolling", C09.trace_cfg()),
        "ema": (rowwise_pairs(rng, tier, lambda r, k, v, s: C10.mk(r, k, v, s, entry=r.pick(["ema_grouped", "gb"])), nmax, extra), rowwise.run_ema, "Trace_GBEma", C10.trace_cfg(md="TRUE")),
        "select": (select_pairs(rng, tier), rowwise.run_select, "Trace_GBSelect", C15.TRACE_CFG),
        "groups": (groups_cases(rng, tier), factorize.run_case, "Trace_GBFactorize", C02.TRACE_CFG),
        "nearby": (nearby_pairs(rng, tier), rowwise.run_nearby, "Trace_GBNearby", NEARBY_TRACE),
    }
    markers = {}
    for name, (pairs, fn, tmod, cfg) in fams.items():
        flat = [c for p in pairs for c in p]
        warm = [c for c in flat if not c.get("T") and c.get("emb", "f64") == "f64" and len(c.get("kenc", [])) != 2 and name in ("reduce", "cum", "roll")][:20]
        grp = (lambda c: EMB[c["emb"]].dtype.str if EMB[c["emb"]].kind not in "mM" else "<i8") if name in ("reduce", "cum", "roll") else None
        traces = ck.drive(fn, flat, warm_cases=warm, group=grp)
        for t, c in zip(traces, flat):
            t["family"] = name
            t["pair"] = c.get("pair", "with_nulls")
            # collect the marker shown at null-key rows of row-aligned outputs
            if name in ("cum", "roll", "ema") and t.get("out") == "ok" and t["pair"] == "with_nulls":
                key = f"{name}:{t.get('op')}:{t.get('emb')}:{t['cfg'].get('level') or t['cfg'].get('entry')}:{t.get('rdtype', '')}"
                for k, r in zip(t["keys"], t["res"]):
                    if k == NULL:
                        markers.setdefault(key, []).append(r)
            if name == "reduce" and t.get("tf") == 1 and t.get("out") == "ok" and t["pair"] == "with_nulls":
                key = f"transform:{t.get('op')}:{t.get('emb')}"
                for k, r in zip(t["keys"], t["res"]):
                    if NULL in k:
                        markers.setdefault(key, []).append(r)
        rej = ck.validate(tmod, traces, cfg, name, nontrivial=lambda t: t.get("pair") == "with_nulls")
        ck.judge(rej, tmod, {}, name=name)
    mtr = [{"what": k, "markers": v[:400], "out": "ok"} for k, v in sorted(markers.items())]
    ck.notes["marker_classes"] = {m["what"]: (m["markers"][0] if m["markers"] else None) for m in mtr}
    rej = ck.validate("Trace_GBMarker", mtr, MARKER_CFG, "markers", key=lambda t: t["what"])
    ck.judge(rej, None, {})
    ck.exhaustive = True
    ck.assumptions += ["the null-rows-deleted call of a pair is built by the harness (Python list filtering); judgement of each call is TLC's",
                       "for the plain EMA the masked-row reading is left open here (C05 judges it)"]
    return ck.finish()


def replay(path):
    t = json.load(open(path))
    fam = t.get("family", "reduce")
    if fam == "groups":
        return C02.replay(path)
    if fam == "nearby":
        from .. import tlc
        case = dict(t["cfg"], keys=t["keys"], vals=t["vals"], maxdiff=t["maxdiff"])
        tr = rowwise.run_nearby(case)
        acc, _, _ = tlc.validate("Trace_GBNearby", [tr], "C06_replay", NEARBY_TRACE)
        print(json.dumps(tr)[:1500])
        if 0 in acc:
            print("replay: trace accepted by the specification")
            return 0
        print(f"VIOLATION property=C06 replay={path}")
        return 1
    mod = {"reduce": C01, "cum": C08, "roll": C09, "ema": C10, "select": C15}.get(fam)
    if mod is None:
        print("marker traces are aggregates over a run; re-run the check")
        return 0
    return mod.replay(path)
