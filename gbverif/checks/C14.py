"""C14 -- margins and cross-tabulation totals equal the aggregate of what they summarise."""
import itertools
import json

from .. import sched
from ..core import CheckRun
from ..domains import Rng
from ..drivers import margins
from ..env import NULL

MC = "SPECIFICATION Spec\nCHECK_DEADLOCK FALSE\nCONSTANTS\n  Labels = {labels}\n  Vals = {vals}\n  MaxRows = {rows}\n  MeanOfMeans = {dev}\nINVARIANT ReAggIsAgg\n"
TRACE_CFG = "SPECIFICATION TraceSpec\nCHECK_DEADLOCK FALSE\nCONSTANTS\n  Labels = {1}\n  Vals = {1}\n  MaxRows = 0\n  MeanOfMeans = FALSE\n"
OPS = ["sum", "count", "size", "min", "max", "mean"]


def subsets(n):
    return [list(s) for k in range(1, n + 1) for s in itertools.combinations(range(1, n + 1), k)]


def build(rng, tier):
    mc, ct = [], []
    nmax = 3 if tier == "quick" else 4
    # one key: all inputs
    for n in range(0, nmax + 1):
        for ks in itertools.product([NULL, 1, 2], repeat=n):
            for vs in itertools.product([NULL, 1, 2], repeat=n):
                if n == 3 and rng.random() < (0.7 if tier == "quick" else 0.0) or n == 4 and rng.random() < 0.9:
                    continue
                sel = [1] * n if rng.random() < 0.6 else [rng.randrange(2) for _ in range(n)]
                mc.append(dict(op=rng.pick(OPS), keys=[[k] for k in ks], kenc=[rng.pick(["f64", "str"])], vals=list(vs), sel=sel, levels=[1]))
                if n >= 2 and rng.random() < 0.3 and not (mc[-1]["kenc"][0] == "str" and ks[0] == NULL):
                    mc[-1]["T"] = 2          # chunk-wise factorized key
    # two / three keys with sparse combinations and nulls, every level subset
    for _ in range(2500 if tier == "quick" else 30000):
        nk = rng.pick([2, 2, 3])
        n = rng.randrange(1, 6 if tier == "quick" else 8)
        rows = [[rng.pick([NULL, 1, 2, 2, 3]) for _ in range(nk)] for _ in range(n)]
        vals = [rng.pick([NULL, 1, 2, 3]) for _ in range(n)]
        sel = [1] * n if rng.random() < 0.6 else [rng.randrange(2) for _ in range(n)]
        kenc = [rng.pick(["f64", "str", "i64"]) for _ in range(nk)]
        rows = [[(rng.pick([1, 2, 3]) if (x == NULL and kenc[j] == "i64") else x) for j, x in enumerate(r)] for r in rows]
        lv = rng.pick(subsets(nk))
        mc.append(dict(op=rng.pick(OPS), keys=rows, kenc=kenc, vals=vals, sel=sel, levels=lv, explicit=int(rng.random() < 0.5)))
        if rng.random() < 0.25:
            # integer values at 2^53: ordinary rows and 'All' rows must stay exact (no detour through float64)
            mc[-1].update(op=rng.pick(["sum", "min", "max"]), emb="i64big", vals=[(rng.pick([1, 2, 3]) if v == NULL else v) for v in vals])
    for _ in range(1500 if tier == "quick" else 20000):
        nrow, ncol = rng.pick([(1, 1), (1, 1), (2, 1), (1, 2), (2, 2)])
        nk = nrow + ncol
        n = rng.randrange(1, 7)
        rows = [[rng.pick([NULL, 1, 2, 2, 3]) for _ in range(nk)] for _ in range(n)]
        vals = [rng.pick([NULL, 1, 2, 3]) for _ in range(n)]
        sel = [1] * n if rng.random() < 0.6 else [rng.randrange(2) for _ in range(n)]
        ct.append(dict(op=rng.pick(OPS), keys=rows, kenc=[rng.pick(["f64", "str"]) for _ in range(nk)], vals=vals, sel=sel, nrow=nrow,
                       margins=rng.pick([False, True, True, "row", "column"])))
    return mc, ct


def run(tier):
    ck = CheckRun("C14", tier, rule=(
        "single-key margins on every (keys, values) pair over {Null,1,2} up to length 2 (quick: 30% of 3) / 3 (10% of 4) with drawn "
        "masks; random 2- and 3-key groupings (sparse label combinations, nulls in any component, masks) x every subset of "
        "margin levels (given as True or as an explicit list) x {sum,count,size,min,max,mean}; random crosstabs with 1..2 row and "
        "column keys and every margins setting.  TLC checks the exact row set of the margin table and every cell against the "
        "aggregate of the raw selected rows it summarises (mean = total sum / total count)."))
    ck.mc_bg("GBMargins", MC.format(labels="{1, 2}", vals="{1, 2}", rows=3 if tier == "quick" else 4, dev="FALSE"), "reaggregation_theorem", workers=8)
    ck.mc_bg("GBMargins", MC.format(labels="{1, 2}", vals="{1, 2}", rows=3, dev="TRUE"), "neg_mean_of_means", expect="ReAggIsAgg", workers=1)
    sched.install()
    rng = Rng(f"C14-{ck.seed}")
    mc, ct = build(rng, tier)
    tm = ck.drive(margins.run_margins, mc, warm_cases=mc[:5])
    tc = ck.drive(margins.run_crosstab, ct, warm_cases=[])
    rej = ck.validate("Trace_GBMargins", tm + tc, TRACE_CFG, "tables", nontrivial=lambda t: len(t["keys"]) >= 2)
    ck.judge(rej, None, {})
    ck.exhaustive = True
    ck.assumptions += ["the label 'All' is projected to the marker 0; a key label equal to 'All' is outside the driven domain"]
    return ck.finish()


def replay(path):
    t = json.load(open(path))
    print("margins trace; re-run ./check C14:", json.dumps(t)[:700])
    return 0
