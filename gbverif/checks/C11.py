"""C11 -- result labelling, order and shape are determined by the inputs."""
import itertools
import json

from .. import cases as C
from .. import sched
from ..core import CheckRun
from ..domains import Rng, pairs_upto
from ..drivers import api, shape
from ..env import NULL
from . import C01

PLAIN_CFG = "SPECIFICATION TraceSpec\nCHECK_DEADLOCK FALSE\n"
OPS = ["size", "count", "sum", "mean", "min", "max", "first", "last"]


def flags_cases(rng, tier):
    """ordering / observed_only / sort on single- and multi-key groupings (contents + label order via GBCore)."""
    out = []
    nmax = 3 if tier == "quick" else 4
    for keys, vals in pairs_upto(C.KEYS1, [NULL, 1, 2], nmax):
        for sort in (0, 1):
            for oo in (0, 1):
                if len(keys) == 3 and rng.random() < (0.5 if tier == "quick" else 0.0):
                    continue
                kenc = rng.pick(["f64", "str", "M8", "cat", "catperm"] if NULL in keys else C.KENCS)
                op = rng.pick(OPS)
                mask = C.NONE if rng.random() < 0.6 else {"k": "bool", "b": [rng.randrange(2) for _ in keys]}
                out.append(C.base_case(op, C.adapt_keys(rng, keys, kenc), vals, kenc=kenc, sort=sort, oo=oo, mask=mask))
    # chunk-wise factorization (arrow chunks as given; NumPy keys of >= T rows are split into 4 blocks): every block meets
    # the labels in the same order, blocks with different label sets, an empty block
    for r in (2, 3):
        for block in itertools.permutations([1, 2, 3], r):
            for layout in ("np4", "pa2", "pa3", "pa_empty_last", "pa_empty_first", "pa_mixed"):
                for sort in (0, 1):
                    if tier == "quick" and rng.random() < 0.4:
                        continue
                    kenc = rng.pick(["f64", "str", "i64", "M8"])
                    b = list(block)
                    if layout == "np4":
                        keys, kcont, T = b * 4, "np", 2
                    elif layout == "pa2":
                        keys, kcont, T = b * 2, ("pachunk", [r, r]), None
                    elif layout == "pa3":
                        keys, kcont, T = b * 3, ("pachunk", [r, r, r]), None
                    elif layout == "pa_empty_last":
                        keys, kcont, T = b, ("pachunk", [r, 0]), None
                    elif layout == "pa_empty_first":
                        keys, kcont, T = b, ("pachunk", [0, r]), None
                    else:
                        tail = [rng.pick([1, 2, 3]) for _ in range(rng.randrange(1, 4))]
                        keys, kcont, T = b + tail, ("pachunk", [r, len(tail)]), None
                    vals = [rng.pick([NULL, 1, 2]) for _ in keys]
                    c = C.base_case(rng.pick(OPS), keys, vals, kenc=kenc, sort=sort, oo=1)
                    c["kcont"] = kcont
                    if T:
                        c["T"] = T
                    out.append(c)
    for _ in range(2500 if tier == "quick" else 30000):
        n = rng.randrange(1, 10)
        nk = rng.pick([2, 2, 3])
        kencs = [rng.pick(["f64", "str", "cat", "catperm", "i64"]) for _ in range(nk)]
        rows = [[(rng.pick([NULL, 1, 2, 3]) if kencs[j] != "i64" else rng.pick([1, 2, 3])) for j in range(nk)] for _ in range(n)]
        vals = [rng.pick([NULL, 1, 2, 3]) for _ in range(n)]
        c = C.base_case(rng.pick(OPS), [0] * n, vals, sort=rng.randrange(2), oo=rng.randrange(2),
                        mask=C.NONE if rng.random() < 0.6 else {"k": "bool", "b": [rng.randrange(2) for _ in range(n)]})
        c["keys"], c["kenc"] = rows, kencs
        out.append(c)
    return out


def shape_cases(rng, tier):
    out = []
    nmax = 3
    for keys, vals in pairs_upto(C.KEYS1, [NULL, 1, 2], nmax):
        n = len(keys)
        if n == 0 or (n == 3 and rng.random() < (0.7 if tier == "quick" else 0.2)):
            continue
        for vk in ("array", "series", "series", "list", "dict", "frame", "2d", "plseries"):
            nv = 1 if vk in ("array", "series", "plseries") else rng.pick([1, 2, 3])
            vcols = [list(vals)] + [[rng.pick([NULL, 1, 2, 3]) for _ in range(n)] for _ in range(nv - 1)]
            if vk in ("dict", "frame"):
                # (default integer column labels start at 0: a label that is falsy but not None)
                vnames = rng.sample(["a", "b", "zz", "v1"], nv) if rng.random() < 0.7 else list(range(nv))
            elif vk == "list":
                vnames = [rng.pick([None, "a", "b", "c", 0]) for _ in range(nv)]
                if len({x for x in vnames if x is not None}) < len([x for x in vnames if x is not None]):
                    vnames = [None] * nv
            elif vk in ("series", "plseries"):
                vnames = [rng.pick([None, "val", "x", 0])] if vk == "series" else [rng.pick(["val", "x"])]
            else:
                vnames = [None] * nv
            nk = rng.pick([1, 1, 2, 3])
            kencs = [rng.pick(["f64", "str", "cat"]) for _ in range(nk)]
            rows = [[k] + [rng.pick([1, 2]) for _ in range(nk - 1)] for k in keys]
            knames = [rng.pick([None, "k%d" % j, "key%d" % j]) for j in range(nk)]
            kkind = rng.pick(["list", "dict", "frame"])
            if kkind in ("dict", "frame") and nk > 1:
                knames = ["k%d" % j for j in range(nk)]
            out.append(dict(op=rng.pick(OPS[1:]), keys=rows, kenc=kencs, knames=knames, kkind=kkind, vcols=vcols, vnames=vnames, vkind=vk,
                            sort=rng.randrange(2), oo=rng.randrange(2), mask=C.NONE if rng.random() < 0.7 else {"k": "bool", "b": [rng.randrange(2) for _ in range(n)]}))
    return out


def run(tier):
    ck = CheckRun("C11", tier, rule=(
        "order/listing: every (keys, values) pair over {Null,1,2,3}x{Null,1,2} up to length 3 (4) x sort x observed_only with "
        "key dtypes incl. categoricals with unused and permuted categories and bools, plus random 2-3-key groupings "
        "(lexicographic order, category order per level, first appearance) -- validated against GBCore (labels and values "
        "in order); shape: values given as array / named or unnamed Series / polars Series / list / dict / DataFrame / 2-D "
        "array with 1-3 columns, keys named or not (list, dict, frame): result kind, Series name, index level names and "
        "column labels validated by Trace_GBShape, every column's contents validated as its own GBCore trace."))
    ck.mc_bg("GBCore", C01.MC.format(labels="{1, 2}", nkeys=2, vals="{1}", rows=3, kernels='{"sum", "size"}', obv="FALSE"), "core_2keys_order", workers=4)
    ck.mc_bg("GBCore", C01.MC.format(labels="{1, 2, 3}", nkeys=1, vals="{1}", rows=4 if tier == "quick" else 5, kernels='{"sum", "first"}', obv="FALSE"), "core_order_n4", workers=4)
    sched.install()
    rng = Rng(f"C11-{ck.seed}")
    fc = flags_cases(rng, tier)
    tf = ck.drive(api.run_reduce, fc, warm_cases=[c for c in fc if len(c["kenc"]) == 1 and not c.get("T")][:20])
    rej = ck.validate("Trace_GBCore", tf, C01.trace_cfg(), "order_flags", nontrivial=C.nontrivial_api, diag_cfg=C01.trace_cfg(diag="TRUE", inv=False))
    ck.judge(rej, "Trace_GBCore", {})
    sc = shape_cases(rng, tier)
    lists = ck.drive(shape.run_shape, sc, warm_cases=[])
    ck.check_harness([x for x in lists if not isinstance(x, list)])
    shapes = [l[0] for l in lists if isinstance(l, list)]
    cols = [t for l in lists if isinstance(l, list) for t in l[1:]]
    rej = ck.validate("Trace_GBShape", shapes, PLAIN_CFG, "shape", nontrivial=lambda t: True, key=lambda t: json.dumps([t["cfg"], t["vnames"], t["knames"], t["keys"]]))
    ck.judge(rej, None, {})
    rej = ck.validate("Trace_GBCore", cols, C01.trace_cfg(), "columns", nontrivial=C.nontrivial_api)
    ck.judge(rej, "Trace_GBCore", {})
    ck.exhaustive = True
    ck.assumptions += ["labels invented for unnamed inputs are not judged; the projection of names/kinds (drivers/shape.py) is trusted"]
    return ck.finish()


def replay(path):
    t = json.load(open(path))
    if t.get("kind") in ("shape", "column"):
        print("shape-family trace; re-run ./check C11:", json.dumps(t)[:500])
        return 0
    return C01.replay(path)
