"""C17 -- the pandas-style facade agrees with the core engine and with pandas."""
import itertools
import json

from .. import sched
from ..core import CheckRun
from ..domains import Rng
from ..drivers import facade
from ..env import NULL
from . import C01, C02, C08, C09

PLAIN = "SPECIFICATION TraceSpec\nCHECK_DEADLOCK FALSE\n"
METHODS = facade.AGG + facade.CUM + ["rolling_" + r for r in facade.ROLL] + ["iter"] + facade.DELEG


def build(rng, tier):
    out = []
    nmax = 3 if tier == "quick" else 4
    reps = 1 if tier == "quick" else 3
    for n in range(1, nmax + 1):
        for k1 in itertools.product([NULL, 1, 2], repeat=n):
            for _ in range(reps * (2 if n <= 2 else 1)):
                for meth in METHODS:
                    if n == 3 and rng.random() < (0.6 if tier == "quick" else 0.0) or n == 4 and rng.random() < 0.8:
                        continue
                    by = rng.pick(["col", "col", "cols", "array", "level", "mixed", "series"])
                    series = by in ("array", "level") and rng.random() < 0.3
                    nv = 1 if series else rng.pick([1, 2, 2])
                    vcols = {nm: [rng.pick([NULL, -1, 0, 1, 2]) for _ in range(n)] for nm in ["v1", "v2"][:nv]}
                    c = dict(k1=list(k1), k2=[rng.pick([NULL, 1, 2]) for _ in range(n)] if by in ("cols", "mixed") else None, vcols=vcols, by=by,
                             index=("default" if by == "level" else rng.pick(["default", "shuffled", "dups", "strings", "multi"])),
                             method=meth, select=(None if series else rng.pick([None, None, "one", "last"])), series=series,
                             kkinds=[rng.pick(["str", "f64", "cat"]), rng.pick(["str", "f64"])], seed=rng.randrange(10 ** 6))
                    if by in ("col", "cols", "mixed") and not series and meth != "iter" and rng.random() < 0.2:
                        c["select"], c["kkinds"][0] = "withkey", "f64"      # the selection names the key column again
                    if by in ("col", "array", "level", "series") and n >= 2 and rng.random() < 0.2 and c["kkinds"][0] != "cat" and not (c["kkinds"][0] == "str" and k1[0] == NULL):
                        c["T"] = 2          # the facade's grouper factorizes the key chunk-wise
                    if meth.startswith("rolling_") and rng.random() < 0.7:
                        W = rng.pick([1, 2, 3])
                        c["roll"] = [W, rng.pick([None] + list(range(0, W + 1)))]      # .rolling(W, min_periods=None | 0..W)
                    out.append(c)
    return out


def run(tier):
    ck = CheckRun("C17", tier, rule=(
        "Series/DataFrames of up to 3 (4) rows: every key column over {Null,1,2} (exhaustive for n<=2, sampled above) x keys "
        "given by column name / several names / array / Series named like a value column / index level / name+array mixture x index kind (default, shuffled "
        "ints, duplicated labels, strings, 2-level) x 1-2 value columns with zeros/negatives/nulls x with and without [] "
        "selection (one column, a list, a list that names the key column again) x string / float / categorical (with an unused category) keys x every facade method (10 aggregations, cumsum/cummax/cummin/cumcount, rolling sum/mean/min/max with window 1..3 and min_periods None / 0..window, "
        "iteration; and the delegation of median / quantile / nth / head / tail / agg / apply / ema / masked aggregations / ngroups, each compared with the core engine's result on the selected columns).  The facade's result, the core engine's result on the selected value columns and (where the property "
        "names it) pandas' result are all projected to the same trace formats and validated against the same specifications."))
    ck.mc_bg("GBCore", C01.MC.format(labels="{1, 2}", nkeys=2, vals="{1}", rows=3, kernels='{"sum", "first", "size"}', obv="FALSE"), "core_two_keys", workers=4)
    sched.install()
    rng = Rng(f"C17-{ck.seed}")
    cases = build(rng, tier)
    lists = ck.drive(facade.run_case, cases, warm_cases=[])
    ck.check_harness([x for x in lists if not isinstance(x, list)])
    allt = [t for l in lists if isinstance(l, list) for t in l]
    by_kind = {}
    for t in allt:
        by_kind.setdefault(t["kind"], []).append(t)
    ck.notes["traces_by_impl"] = {impl: sum(1 for t in allt if t.get("impl") == impl) for impl in ("facade", "core", "pandas")}
    specs = {"cols": ("Trace_GBFacade", PLAIN), "core": ("Trace_GBCore", C01.trace_cfg()), "cum": ("Trace_GBCumulative", C08.TRACE_CFG.format(diag="FALSE")),
             "roll": ("Trace_GBRolling", C09.trace_cfg()), "iter": ("Trace_GBFactorize", C02.TRACE_CFG), "deleg": ("Trace_GBFacade", PLAIN)}
    for kind, trs in by_kind.items():
        mod, cfg = specs[kind]
        rej = ck.validate(mod, trs, cfg, kind, nontrivial=lambda t: True, key=lambda t: json.dumps([t.get("impl"), t.get("cfg"), t.get("k1"), t.get("k2"), t.get("vcols"), t.get("op"), t.get("column")], default=str))
        ck.judge(rej, None, {})
    ck.exhaustive = True
    ck.assumptions += ["pandas is a second implementation only for the operations the property lists (and, for cumulative results, at rows holding a non-null value)",
                       "the projection of frames to per-column traces (drivers/facade.py) is trusted"]
    return ck.finish()


def replay(path):
    t = json.load(open(path))
    print("facade-family trace; re-run ./check C17:", json.dumps(t, default=str)[:800])
    return 0
