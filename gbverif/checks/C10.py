"""C10 -- EMA is the normalised exponentially weighted mean, per group."""
import itertools
import json

from .. import sched
from ..core import CheckRun
from ..domains import Rng
from ..drivers import rowwise
from ..env import NULL

MC = """SPECIFICATION Spec
CHECK_DEADLOCK FALSE
CONSTANTS
  Groups = {groups}
  Vals = {vals}
  MaxRows = {rows}
  BetaSet <- {betas}
  GapSet = {gaps}
  MaskDecays = {md}
  NullKeyLeaks = {nk}
INVARIANT EmaIsDef
PROPERTY GroupsIndependent
"""
TRACE_CFG = """SPECIFICATION TraceSpec
CHECK_DEADLOCK FALSE
CONSTANTS
  Groups = {{1, 2, 3, 4, 5}}
  Vals = {{1}}
  MaxRows = 0
  BetaSet <- HalfBeta
  GapSet = {{1}}
  MaskDecays = {md}
  NullKeyLeaks = FALSE
  Diag = {diag}
"""
EMBS = ["f64", "f32", "i32", "i64"]


def trace_cfg(md="FALSE", diag="FALSE"):
    return TRACE_CFG.format(md=md, diag=diag)


def mk(rng, keys, vals, sel, entry=None, param=None, beta=None):
    n = len(keys)
    single = set(k for k in keys if k != NULL) <= {1} and NULL not in keys and all(sel)
    entry = entry or rng.pick(["ema_grouped", "gb", "gb"] + (["ema", "ema"] if single else []))
    param = param or rng.pick(["alpha", "halflife", "timed"])
    beta = beta or (rng.pick(["0", "1/4", "1/2", "3/4"]) if param == "alpha" else rng.pick(["1/4", "1/2", "3/4"]))
    emb = rng.pick(EMBS)
    v = list(vals)
    if NULL in v and emb in ("i32", "i64"):
        emb = rng.pick(["f64", "f32"])
    c = dict(entry=entry, param=param, beta=beta if param != "timed" else "1/2", keys=list(keys), vals=v, emb=emb)
    if not all(sel):
        c["mask"] = {"k": "bool", "b": list(sel)}
    if param == "timed":
        t, times = rng.randrange(0, 3), []
        for _ in range(n):
            times.append(t)
            t += rng.pick([0, 1, 1, 2, 3])
        if times and times[-1] > 14:
            times = [min(x, 14) for x in times]
        c["times"] = times
        c["tunit"] = rng.pick(["ns", "ns", "us", "s"])
        c["tcont"] = rng.pick(["np", "index", "series", "tz"])
        c["tbase"] = rng.pick(["2024-01-01", "2024-01-01", "1969-12-31T23:59:50", "1970-01-01"])
        if rng.random() < 0.4:
            # a halflife that is not a whole number of the timestamps' ticks: 500 ms against times in whole seconds
            # (carried in s / us / ns) halves the weight twice per second: beta = 1/4 per abstract time step
            c["hl"], c["beta"] = rng.pick(["500ms", "0.5s"]), "1/4"
            c["times"] = [min(x, 7) for x in c["times"]]        # (4^elapsed must stay within TLC's 32-bit integers)
    if entry == "gb":
        c["kenc"] = rng.pick(["f64", "str", "M8"]) if NULL in keys else rng.pick(["f64", "i64", "str", "cat"])
        c["vcont"] = rng.pick(["np", "series"])
        if rng.random() < 0.2 and c["vcont"] == "series" or rng.random() < 0.1:
            c["layout"] = "bygroup"
            c["kenc"] = rng.pick(["f64", "str"]) if NULL in keys else rng.pick(["f64", "i64", "str"])
        # chunk-wise factorized keys (per-chunk local codes until something unifies them)
        if n >= 4 and rng.random() < 0.3 and c["kenc"] != "cat" and not (c["kenc"] == "str" and keys[0] == NULL):
            if rng.random() < 0.5:
                c["T"] = rng.pick([2, 4])
            elif c["kenc"] in ("f64", "i64"):
                c["kcont"] = ("pachunk", [n // 2, n - n // 2])
    return c


def build_cases(tier, seed):
    rng = Rng(f"C10-{seed}")
    cases = []
    n2 = 3 if tier == "quick" else 4
    for n in range(0, n2 + 1):
        for keys in itertools.product([NULL, 1, 2], repeat=n):
            for vals in itertools.product([NULL, 1, 2, 3], repeat=n):
                if tier == "quick" and n == 3 and rng.random() < 0.6:
                    continue
                for param in ("alpha", "halflife", "timed"):
                    cases.append(mk(rng, keys, vals, [1] * n, entry=rng.pick(["ema_grouped", "gb"]), param=param))
    n1 = 5 if tier == "quick" else 6
    for n in range(1, n1 + 1):
        for vals in itertools.product([NULL, 1, 2], repeat=n):
            # ungrouped vs grouped on the same single-group series, every parameterisation
            if n <= 4 or rng.random() < (0.3 if tier == "quick" else 1.0):
                for entry in ("ema", "ema_grouped", "gb"):
                    cases.append(mk(rng, [1] * n, vals, [1] * n, entry=entry))
            for kinds in itertools.product("smn", repeat=n):
                p = 1.0 if n <= 3 else (0.15 if n == 4 else 0.02) if tier == "quick" else (1.0 if n <= 4 else 0.15 if n == 5 else 0.03)
                if rng.random() > p or all(k == "s" for k in kinds):
                    continue
                keys = [NULL if k == "n" else 1 for k in kinds]
                sel = [0 if k == "m" else 1 for k in kinds]
                cases.append(mk(rng, keys, vals, sel))
    for _ in range(2500 if tier == "quick" else 30000):
        n = rng.randrange(4, 15)
        keys = [rng.pick([NULL, 1, 2, 3]) for _ in range(n)]
        # at most 7 rows per group: the exact rationals stay below 2^31 in TLC
        cnt = {}
        for j, k in enumerate(keys):
            cnt[k] = cnt.get(k, 0) + 1
            if k != NULL and cnt[k] > 7:
                keys[j] = NULL
        vals = [rng.pick([NULL, 1, 2, 3]) for _ in range(n)] if rng.random() < 0.5 else [rng.pick([NULL, 0, 0, 1, 2, -1, -2]) for _ in range(n)]
        sel = [int(rng.random() < 0.75) for _ in range(n)] if rng.random() < 0.4 else [1] * n
        cases.append(mk(rng, keys, vals, sel))
    # zeros and values that cancel: a running weighted sum of exactly 0 is not "nothing observed yet"
    for n in range(1, 5):
        for vals in itertools.product([NULL, 0, 1, -1], repeat=n):
            if 0 not in vals and not (1 in vals and -1 in vals):
                continue
            if n == 4 and rng.random() < (0.7 if tier == "quick" else 0.0):
                continue
            for param in ("alpha", "timed"):
                cases.append(mk(rng, [1] * n, vals, [1] * n, entry=rng.pick(["ema", "ema_grouped", "gb"]), param=param))
                keys = [rng.pick([1, 2]) for _ in range(n)]
                cases.append(mk(rng, keys, vals, [1] * n, entry=rng.pick(["ema_grouped", "gb"]), param=param))
    return cases


def nontrivial(t):
    ks = {k for k in t["keys"] if k != NULL}
    return len(ks) >= 2 or NULL in t["keys"] or NULL in t["vals"] or 0 in t["sel"] or t["timed"] == 1


def run(tier):
    ck = CheckRun("C10", tier, rule=(
        "2-group+null-key key sequences x value sequences over {Null,1,2,3} up to length 3 (quick, 40% of n=3) / 4 x "
        "{alpha, real-valued halflife, time-weighted} through ema_grouped and GroupBy.ema; single-group series over "
        "{Null,1,2} up to length 5 (6) through ema, ema_grouped and GroupBy.ema (grouped == ungrouped from the first valid "
        "row), x {selected, masked, null key} rows; beta in {0,1/4,1/2,3/4} given as alpha or as the real halflife "
        "-ln2/ln(beta); irregular timestamps in ns/us/s, tz-aware, before/at the epoch; float32/64, int32/64 values; both "
        "layouts; random rows up to 14.  Outputs are recovered as exact rationals (limit_denominator, 1e-12 guard) and "
        "compared with the machine's exact value row by row."))
    if tier == "quick":
        ck.mc_bg("GBEma", MC.format(groups="{1, 2}", vals="{1, 2}", rows=3, betas="AllBetas", gaps="{1, 2}", md="FALSE", nk="FALSE"), "deep_2groups_n3")
        ck.mc_bg("GBEma", MC.format(groups="{1}", vals="{1, 2}", rows=4, betas="TwoBetas", gaps="{1, 3}", md="FALSE", nk="FALSE"), "deep_1group_n4", workers=4)
    else:
        ck.mc("GBEma", MC.format(groups="{1, 2}", vals="{1, 2}", rows=4, betas="AllBetas", gaps="{1, 2}", md="FALSE", nk="FALSE"), "deep_2groups_n4", timeout=14400, heap="32g")
        # (rows=6 over this alphabet is 4e9 states: out of reach; 5 rows: 1.3e8)
        ck.mc("GBEma", MC.format(groups="{1}", vals="{1, 2, 3}", rows=5, betas="TwoBetas", gaps="{1, 2}", md="FALSE", nk="FALSE"), "deep_1group_n5", timeout=14400, heap="32g")
    ck.mc_bg("GBEma", MC.format(groups="{1}", vals="{1, 2}", rows=3, betas="HalfBeta", gaps="{1}", md="TRUE", nk="FALSE"), "neg_mask_decays", expect="EmaIsDef", workers=1)
    ck.mc_bg("GBEma", MC.format(groups="{1, 2}", vals="{1}", rows=3, betas="HalfBeta", gaps="{1}", md="FALSE", nk="TRUE"), "neg_null_key_leaks", expect="GroupsIndependent", workers=1)

    sched.install()
    cases = build_cases(tier, ck.seed)
    traces = ck.drive(rowwise.run_ema, cases, warm_cases=[c for c in cases if c["entry"] != "gb"][:60])
    ck.exhaustive = True
    rej = ck.validate("Trace_GBEma", traces, trace_cfg(), "traces", nontrivial=nontrivial, diag_cfg=trace_cfg(diag="TRUE"))
    # C10 does not say whether an unselected row counts as an elapsed row of the plain EMA (C05 does: it must
    # not).  Masked plain traces are accepted here under either reading.
    masked = [t for t in rej if t["timed"] == 0 and 0 in t["sel"] and t["out"] == "ok"]
    if masked:
        from .. import tlc
        acc, _, st = tlc.validate("Trace_GBEma", masked, "C10_maskdecays", trace_cfg(md="TRUE"))
        ok_ids = {id(masked[j]) for j in acc}
        ck.traces_ok += len(acc)
        ck.notes["masked_plain_traces_accepted_only_with_decay_reading"] = len(acc)
        rej = [t for t in rej if id(t) not in ok_ids]
    ck.judge(rej, "Trace_GBEma", {})
    ck.assumptions += ["float outputs are recovered as rationals with Fraction.limit_denominator(2^22) and a 1e-12 relative guard",
                       "per-group length <= 7 rows and elapsed time <= 14 halflives so that TLC's 32-bit integers hold the exact values"]
    return ck.finish()


def replay(path):
    t = json.load(open(path))
    c = t["cfg"]
    beta = {(0, 1): "0", (1, 4): "1/4", (1, 2): "1/2", (3, 4): "3/4"}[tuple(t["beta"])]
    case = dict(entry=c["entry"], param=c["param"], beta=beta, keys=t["keys"], vals=t["vals"], emb=t["emb"], mask=t.get("mask", {"k": "none"}), times=t.get("times"))
    case.update({k: v for k, v in c.items() if v is not None and k not in ("entry", "param")})
    tr = rowwise.run_ema(case)
    from .. import tlc
    acc, _, _ = tlc.validate("Trace_GBEma", [tr], "C10_replay", trace_cfg())
    print(json.dumps(tr))
    if 0 in acc:
        print("replay: trace accepted by the specification")
        return 0
    print(f"VIOLATION property=C10 replay={path}")
    return 1
