"""C05 -- a mask is equivalent to filtering the rows first."""
import itertools
import json

from .. import cases as C
from .. import sched, tlc
from ..abstract import EMB
from ..core import CheckRun
from ..domains import Rng, mask_selection, pairs_upto
from ..drivers import api, rowwise
from ..env import NULL
from . import C01, C08, C09, C10


def filtered(case, sel_idx, row_fields=("keys", "vals", "times")):
    """the same call on the filtered rows, without a mask (harness-side construction of the pair)."""
    f = dict(case)
    for k in row_fields:
        if k in case and case[k] is not None:
            f[k] = [case[k][i] for i in sel_idx]
    f["mask"] = {"k": "none"}
    f.pop("mcont", None)
    f["pair"] = "filtered"
    return f


def reduce_pairs(rng, tier):
    nmax = 3 if tier == "quick" else 4
    mbn = C.masks_by_n(6)
    out = []
    embs = C.API_EMBS_Q if tier == "quick" else C.API_EMBS
    for keys, vals in pairs_upto(C.KEYS1, C.VALS, nmax):
        n = len(keys)
        if n == 0:
            continue
        kinds = [("bool", m) for m in (mbn[n]["bool"] if n <= 2 else [rng.pick(mbn[n]["bool"]) for _ in range(2)])]
        kinds += [("slice", rng.pick(mbn[n]["slice"])), ("pos", C.draw_mask(rng, n, mbn, ("pos",), pos_in_range=True))]
        for _, m in kinds:
            if tier == "quick" and n == 3 and rng.random() < 0.5:
                continue
            base = C01.draw_cover(rng, keys, vals, mbn, embs, strategy=False)
            base["mask"] = m
            base["tf"] = 1 if rng.random() < 0.2 else 0
            if base["tf"]:
                base["kcont"] = "np"
            if rng.random() < 0.3 and n >= 2:
                base["T"] = 2          # chunked keys: first chunk inside a slice
                # (string keys with a leading null fail in the constructor on this route: known finding of C02)
                if m["k"] == "slice" and m["s"][2] not in (-997, 1):
                    base.pop("T")      # stepped slices on chunked keys are a documented refusal
            sel = mask_selection(n, m)
            f = filtered(base, sel, ("keys", "vals"))
            if False:      # (repaired in 0f71cb3)
                base.pop("T"); f.pop("T")     # (known finding of C02 in the constructor)
            out.append((base, f))
    # keys that arrive as arrow ChunkedArrays in every layout (empty chunks at the front, in the middle, at the end) under slices
    # whose bounds lie before the first row, inside any chunk, on chunk boundaries and beyond the last row
    from ..env import NONE
    for _ in range(500 if tier == "quick" else 6000):
        n = rng.randrange(1, 8)
        keys = [rng.pick([1, 2, 3]) for _ in range(n)]
        vals = [rng.pick([NULL, 1, 2, 3]) for _ in range(n)]
        k = rng.randrange(2, 5)
        cuts = sorted(rng.randrange(0, n + 1) for _ in range(k - 1))
        lay = [b - a for a, b in zip([0] + cuts, cuts + [n])]
        if rng.random() < 0.3:
            lay = [0] + lay
        bounds = [NONE] + list(range(-(n + 3), n + 4))
        m = {"k": "slice", "s": [rng.pick(bounds), rng.pick(bounds), rng.pick([NONE, 1])]}
        base = C.base_case(rng.pick(C.OPS8), keys, vals, mask=m, kenc=rng.pick(["i64", "f64", "str"]), emb="f64", tf=int(rng.random() < 0.2),
                           sort=rng.randrange(2), kcont=["pachunk", lay])
        f = filtered(base, mask_selection(n, m), ("keys", "vals"))
        f["kcont"] = "np"
        out.append((base, f))
    return out


def rowwise_pairs(rng, tier, builder, n_small, extra):
    """masked / filtered pairs for a row-aligned family; `builder(rng, keys, vals, sel)` -> case."""
    out = []
    for n in range(1, n_small + 1):
        for vals in itertools.product([NULL, 1, 2], repeat=n):
            for kinds in itertools.product("sm", repeat=n):
                if all(k == "s" for k in kinds):
                    continue
                p = 1.0 if n <= 3 else 0.25 if n == 4 else 0.05
                if rng.random() > p * (1.0 if tier == "thorough" else 0.6):
                    continue
                keys = [rng.pick([1, 1, 2, NULL]) for _ in range(n)] if rng.random() < 0.5 else [1] * n
                sel = [0 if k == "m" else 1 for k in kinds]
                c = builder(rng, keys, vals, sel)
                c.pop("layout", None)
                c.pop("T", None)
                idx = [i for i, s in enumerate(sel) if s]
                out.append((c, filtered(c, idx)))
    for _ in range(extra):
        n = rng.randrange(4, 12)
        keys = [rng.pick([NULL, 1, 2]) for _ in range(n)]
        cnt = {}
        for j, k in enumerate(keys):
            cnt[k] = cnt.get(k, 0) + 1
            if k != NULL and cnt[k] > 6:
                keys[j] = NULL
        vals = [rng.pick([NULL, 1, 2, 3]) for _ in range(n)]
        sel = [int(rng.random() < 0.6) for _ in range(n)]
        c = builder(rng, keys, vals, sel)
        c.pop("layout", None)
        c.pop("T", None)
        idx = [i for i, s in enumerate(sel) if s]
        out.append((c, filtered(c, idx)))
    return out


def run(tier):
    ck = CheckRun("C05", tier, rule=(
        "masked / filtered call pairs: reductions (8 ops, transform on/off) on every (keys, values) pair over {Null,1,2,3} up "
        "to length 3 (4) with every boolean mask for n<=2 and drawn bool/slice/positional masks (negative bounds, repeats, "
        "all-false/all-true), flat and chunked keys, key/value dtype draws; cumulative, rolling/shift/diff and EMA "
        "(plain and time-weighted) with every selected/masked pattern on single- and two-group rows up to length 5 and "
        "random longer rows.  Both calls of a pair are validated by TLC against the same deterministic specification (the "
        "masked call against the machine in which an unselected row is a stutter), which yields the pair relation."))
    rng = Rng(f"C05-{ck.seed}")
    # the specification side: unselected rows are stutters in every machine (checked by the models of C01/C08/C09/C10);
    # here the mask -> selection operator itself is model-checked against array indexing on an explicit domain
    ck.mc_bg("GBSelMC", "SPECIFICATION Spec\nCHECK_DEADLOCK FALSE\nCONSTANTS\n  MaxN = %d\nINVARIANT SliceIsRange\nINVARIANT BoolIsFilter\nINVARIANT PosIsIndexing\n" % (4 if tier == "quick" else 6), "selection_ops")
    ck.mc_bg("GBEma", C10.MC.format(groups="{1}", vals="{1, 2}", rows=3, betas="HalfBeta", gaps="{1}", md="TRUE", nk="FALSE"), "neg_mask_decays", expect="EmaIsDef", workers=1)

    sched.install()
    groups = {
        "reduce": (reduce_pairs(rng, tier), api.run_reduce, "Trace_GBCore", C01.trace_cfg()),
        "cum": (rowwise_pairs(rng, tier, lambda r, k, v, s: C08.mk(r, r.pick(C08.OPS), k, v, s, C08.EMBS_Q), 5, 800 if tier == "quick" else 8000), rowwise.run_cum, "Trace_GBCumulative", C08.TRACE_CFG.format(diag="FALSE")),
        "roll": (rowwise_pairs(rng, tier, lambda r, k, v, s: C09.mk(r, r.pick(C09.OPS), *C09.wm(r), k, v, s, tier), 5, 800 if tier == "quick" else 8000), rowwise.run_roll, "Trace_GBRolling", C09.trace_cfg()),
        "ema": (rowwise_pairs(rng, tier, lambda r, k, v, s: C10.mk(r, k, v, s, entry=r.pick(["ema_grouped", "gb"])), 5, 800 if tier == "quick" else 8000), rowwise.run_ema, "Trace_GBEma", C10.trace_cfg()),
    }
    all_rej = []
    for name, (pairs, fn, tmod, cfg) in groups.items():
        flat = [c for p in pairs for c in p]
        warm = [c for c in flat if c.get("mask", {}).get("k") == "none" and not c.get("T") and c.get("emb") == "f64" and len(c.get("kenc", [])) != 2][:30]
        grp = (lambda c: EMB[c["emb"]].dtype.str if EMB[c["emb"]].kind not in "mM" else "<i8") if name != "ema" else None
        traces = ck.drive(fn, flat, warm_cases=warm, group=grp)
        for t, c in zip(traces, flat):
            t["family"] = name
            t["pair"] = c.get("pair", "masked")
        rej = ck.validate(tmod, traces, cfg, name, nontrivial=lambda t: t.get("pair") == "masked")
        if name == "ema" and rej:
            # known finding: the plain EMA decays across unselected rows -- accepted only by the deviation config
            dev = {"C05-ema-decays-across-masked-rows": C10.trace_cfg(md="TRUE")}
            rej = ck.judge(rej, tmod, dev, name="ema_dev")
        elif name == "reduce":
            dev = {"C05-chunked-keys-positional-mask-as-set": C01.trace_cfg(pset="TRUE", inv=False)}
            rej = ck.judge(rej, tmod, dev, name="reduce_dev")
        else:
            rej = ck.judge(rej, tmod, {}, name=name)
        all_rej += rej
    # growth beyond the listed operations: groupby.value_counts(x, normalize, mask) = size, optionally divided by its total
    vc = []
    for keys in itertools.product([NULL, 1, 2, 3], repeat=3):
        for m in [C.NONE] + [{"k": "bool", "b": list(b)} for b in itertools.product([0, 1], repeat=3)]:
            if rng.random() < (0.5 if tier == "quick" else 0.0):
                continue
            kenc = rng.pick(["f64", "str", "cat", "M8"])
            c = dict(keys=[[k] for k in keys], kenc=[kenc], mask=m, sort=1, kcont=rng.pick(["np", "series"]), mcont=rng.pick(["np", "series"]))
            sel = mask_selection(3, m)
            vc.append(c)
            vc.append(dict(c, keys=[c["keys"][i] for i in sel], mask=C.NONE, pair="filtered"))
    lists = ck.drive(api.run_value_counts, vc, warm_cases=[])
    ck.check_harness([x for x in lists if not isinstance(x, list)])
    sizes = [l[0] for l in lists if isinstance(l, list)]
    norms = [l[1] for l in lists if isinstance(l, list)]
    for t, c in zip(sizes, vc):
        t["family"], t["pair"] = "value_counts", c.get("pair", "masked")
    rej = ck.validate("Trace_GBCore", sizes, C01.trace_cfg(), "value_counts", nontrivial=lambda t: t.get("pair") == "masked", key=lambda t: json.dumps([t["keys"], t["mask"], t["kenc"], "vc"]))
    all_rej += ck.judge(rej, None, {})
    rej = ck.validate("Trace_GBNormalize", norms, "SPECIFICATION TraceSpec\nCHECK_DEADLOCK FALSE\n", "value_counts_normalize", nontrivial=lambda t: True, key=lambda t: json.dumps([t["keys"], t["mask"], "vcn"]))
    all_rej += ck.judge(rej, None, {})
    ck.exhaustive = True
    ck.assumptions += ["the filtered call of a pair is built by the harness with Python indexing (keys[sel], values[sel]); the judgement of each call is TLC's",
                       "row-aligned operations take boolean masks only; other mask kinds there are judged by C18"]
    return ck.finish()


def replay(path):
    t = json.load(open(path))
    fam = t.get("family", "reduce")
    if fam == "value_counts" or t.get("fn", "").startswith("value_counts"):
        print("value_counts trace; re-run ./check C05:", json.dumps(t)[:600])
        print(f"VIOLATION property=C05 replay={path}")
        return 1
    mod = {"reduce": C01, "cum": C08, "roll": C09, "ema": C10}[fam]
    return mod.replay(path)
