"""C19 -- operations never modify their inputs and results do not alias them."""
import collections
import json
import re

from .. import sched, tlc
from ..core import CheckRun, Machinery
from ..domains import Rng
from ..drivers import memory
from ..env import NULL, SPEC

MC = ("SPECIFICATION Spec\nCHECK_DEADLOCK FALSE\nCONSTANTS\n  MaxSteps = {n}\n  AliasDev <- {a}\n  WriteDev <- {w}\n  EnvCorrupts = {c}\n")
INVS = "INVARIANT InputsIntact\nINVARIANT GroupingIntact\nINVARIANT Repeatable\nINVARIANT CachesIntact\nPROPERTY DirtyMonotone\n"
TRACE_CFG = "SPECIFICATION TraceSpec\nCHECK_DEADLOCK FALSE\nCONSTANTS\n  MaxSteps = 1000\n  AliasDev <- {a}\n  WriteDev <- NoDev\n  EnvCorrupts = {c}\n"

BY_CLASS = collections.defaultdict(list)
for _m, _c in memory.CLASS.items():
    BY_CLASS[_c].append(_m)


def state_graph(steps):
    """TLC dumps the labelled state graph of GBMemory (intended configuration); returns (init id, edges [(src, step, dst)])."""
    wd = tlc.workdir("C19_graph")
    (wd / "g.cfg").write_text(MC.format(n=steps, a="NoDev", w="NoDev", c="FALSE") + INVS)
    rc, out = tlc._java(["-workers", "2", "-metadir", str(wd / "meta"), "-noGenerateSpecTE", "-config", str(wd / "g.cfg"),
                         "-dump", "dot,actionlabels", str(wd / "graph"), str(SPEC / "GBMemory.tla")], cwd=str(SPEC), timeout=600)
    dot = (wd / "graph.dot").read_text()
    inits, edges = [], []
    for m in re.finditer(r'^(-?\d+) \[label="(.*?)"(,style = filled)?\]', dot, re.M):
        if m.group(3):
            inits.append(m.group(1))
    for m in re.finditer(r'^(-?\d+) -> (-?\d+) \[label="Do(Call|Mutate)\((?:\\"(\w+)\\"|(\d+))\)"', dot, re.M):
        step = ["call", m.group(4)] if m.group(3) == "Call" else ["mutate", int(m.group(5)) - 1]
        edges.append((m.group(1), step, m.group(2)))
    edges.sort(key=lambda e: (e[0], e[2], json.dumps(e[1])))     # (TLC's output order depends on its worker scheduling)
    if len(inits) != 1 or not edges:
        raise Machinery("could not parse TLC's state graph dump of GBMemory")
    return inits[0], edges


def paths_to_edges(init, edges):
    adj = collections.defaultdict(list)
    for s, st, d in edges:
        adj[s].append((st, d))
    best = {init: []}
    q = collections.deque([init])
    while q:
        s = q.popleft()
        for st, d in adj[s]:
            if d not in best:
                best[d] = best[s] + [st]
                q.append(d)
    return [best[s] + [st] for s, st, d in edges if s in best]


def draw_world(rng, big=False):
    nulls = rng.random() < 0.6
    n = rng.randrange(6, 13)
    keys = [rng.pick(([NULL] if nulls else []) + [1, 2, 3, 4]) for _ in range(n)]
    if rng.random() < 0.25:
        keys = sorted(keys, key=lambda k: (k == NULL, k))      # rows already in group order (the group-sort permutation is the identity)
    kenc = rng.pick(["f64", "f64", "str", "M8", "cat"]) if nulls else rng.pick(["f64", "i64", "str", "cat", "catperm", "i32", "M8"])
    if kenc in ("str",) and keys[0] == NULL:
        keys[0] = 1
    kcont = rng.pick(["np", "np", "series", "index", "pl", "pa", "pachunk", "arrowseries"])
    if kenc.startswith("cat"):
        kcont = rng.pick(["np", "series"])
    if kenc == "str" and kcont in ("pl",):
        kcont = "np"
    return dict(keys=keys, kenc=kenc, kcont=kcont, venc=rng.pick(memory.VENCS), mkind=rng.pick(["none", "bool", "bool", "series", "pos", "posneg", "slice"]),
                chunked=rng.random() < 0.35, seed=rng.randrange(10 ** 9))


def concretize(rng, steps):
    return [[k, rng.pick(BY_CLASS[a])] if k == "call" else [k, a] for k, a in steps]


def build(rng, tier):
    prop, bind = [], []
    # 1. one replay per transition of TLC's state graph (intended configuration, 3 steps), several worlds each
    init, edges = state_graph(3)
    paths = paths_to_edges(init, edges)
    for p in paths:
        for _ in range(1 if tier == "quick" else 4):
            prop.append(dict(draw_world(rng), steps=concretize(rng, p)))
    # 2. every ordered pair of concrete methods: call A, write through A's result, call B, call A again
    for a in memory.METHODS:
        for b in memory.METHODS:
            if tier == "quick" and rng.random() < 0.55:
                continue
            for _ in range(1 if tier == "quick" else 3):
                prop.append(dict(draw_world(rng), steps=[["call", a], ["mutate", 0], ["call", b], ["call", a]]))
    # 3. every method on every value container / mask kind (inputs intact, no aliasing)
    for m in memory.METHODS:
        for venc in memory.VENCS:
            for mk in ["none", "bool", "series", "pos", "posneg", "slice"]:
                if tier == "quick" and rng.random() < 0.75:
                    continue
                w = draw_world(rng)
                w.update(venc=venc, mkind=mk)
                prop.append(dict(w, steps=[["call", m], ["mutate", 0], ["call", m]]))
    # 4. random walks
    for _ in range(300 if tier == "quick" else 5000):
        steps, nres = [], 0
        for _ in range(rng.randrange(4, 11)):
            if nres and rng.random() < 0.4:
                steps.append(["mutate", rng.randrange(nres)])
            else:
                steps.append(["call", rng.pick(memory.METHODS)])
                nres += 1
        prop.append(dict(draw_world(rng), steps=steps))
    # 5. binding runs: fill the caches, let the harness overwrite one, then call every method
    fill = [["call", "groups"], ["call", "key_count"]]
    for b in ("counts", "indexer", "groups", "keycount"):
        for m in memory.METHODS:
            for _ in range(1 if tier == "quick" else 3):
                w = draw_world(rng)
                w["venc"] = rng.pick(["f64", "i64", "series_f64", "frame"])
                bind.append(dict(w, steps=fill + [["corrupt", b], ["call", m]]))
    return prop, bind, dict(graph_transitions=len(edges), graph_paths=len(paths))


def run(tier):
    ck = CheckRun("C19", tier, rule=(
        "TLC enumerates every history of calls (12 operation classes) and writes through held results over the buffer model "
        "(GBMemory: 4 caller inputs, logical codes/labels, 4 lazily filled caches; negative configurations: groups/key_count "
        "hand out their caches, a result that is a view of the values, an in-place write of keys/codes).  Real histories on one "
        "grouping object: one replay per transition of TLC's state graph (3 steps), every ordered pair of the %d concrete methods "
        "(call A, write through A's result by every ordinary route, call B, call A again), every method x 15 value containers x 6 "
        "mask kinds, random walks of 4..10 steps; keys over 7 containers x 7 dtypes, contiguous and chunked.  After every step "
        "the driver compares byte-level snapshots of all inputs, the logical codes/labels and every filled cache with a fresh "
        "grouping built from pristine inputs, computes np.shares_memory between the result and every buffer, and compares the "
        "result bit-exactly with the fresh grouping's; TLC accepts the history only if every observed effect is allowed.  "
        "Binding runs (harness overwrites a cache) check the specification's Reads/Source tables against the code.") % len(memory.METHODS))
    steps = 4 if tier == "quick" else 5
    ck.mc("GBMemory", MC.format(n=steps, a="NoDev", w="NoDev", c="FALSE") + INVS, "buffers", workers=4)
    ck.mc_bg("GBMemory", MC.format(n=4, a="GroupsAliasDev", w="NoDev", c="FALSE") + "INVARIANT Repeatable\n", "neg_groups_hands_out_cache", expect="Repeatable", workers=1)
    ck.mc_bg("GBMemory", MC.format(n=4, a="ViewDev", w="NoDev", c="FALSE") + "INVARIANT InputsIntact\n", "neg_result_is_view_of_values", expect="InputsIntact", workers=1)
    ck.mc_bg("GBMemory", MC.format(n=4, a="NoDev", w="InPlaceDev", c="FALSE") + "INVARIANT InputsIntact\n", "neg_in_place_write_of_keys", expect="InputsIntact", workers=1)
    ck.mc_bg("GBMemory", MC.format(n=4, a="NoDev", w="InPlaceDev", c="FALSE") + "INVARIANT GroupingIntact\n", "neg_in_place_write_of_codes", expect="GroupingIntact", workers=1)
    rng = Rng(f"C19-{ck.seed}")
    prop, bind, notes = build(rng, tier)
    ck.notes.update(notes)
    sched.install()
    warm = [dict(keys=[1, 2, 1, 2], kenc="f64", kcont="np", venc="f64", mkind="none", chunked=False, seed=1, steps=[["call", "size"]])]
    # kernels that take function arguments are compiled per process (never cached on disk): cases that need the same
    # signatures (value dtype x width of the key codes) go to the same worker
    grp = lambda c: f"{c['venc']}|{c['kenc'].startswith('cat')}"
    traces = ck.drive(memory.run_history, prop + bind, warm_cases=warm, group=grp)
    tp, tb = traces[:len(prop)], traces[len(prop):]
    key = lambda t: json.dumps([t["keys"], t["cfg"]])
    rej = ck.validate("Trace_GBMemory", tp, TRACE_CFG.format(a="NoDev", c="FALSE") + INVS, "histories",
                      nontrivial=lambda t: any(e["e"] == "mutate" and e.get("writes", 0) > 0 for e in t["ev"]), key=key)
    rejb = ck.validate("Trace_GBMemory", tb, TRACE_CFG.format(a="NoDev", c="TRUE"), "binding",
                       nontrivial=lambda t: any(e["e"] == "corrupt" for e in t["ev"]), key=key)
    ck.notes["binding_runs"] = {"traces": len(tb), "with_changed_result": sum(1 for t in tb if any(e["e"] == "call" and e.get("eq") == 0 for e in t["ev"]))}
    ck.judge(rej + rejb, "Trace_GBMemory", {})
    ck.assumptions += ["'ordinary routes' of writing through a result: NumPy item assignment where the array is writable, Series/DataFrame .iloc assignment, "
                       "popping a dict entry; an Index and polars / arrow results are immutable through their APIs and are not written",
                       "state accessors that expose the grouping itself (group_ikey, ikey_count, result_index) are not operation results and are not written through",
                       "aliasing with arrow / polars inputs is detected only where a zero-copy NumPy view of the buffer can be obtained"]
    return ck.finish()


def replay(path):
    t = json.load(open(path))
    case = dict(t["cfg"], keys=t["keys"])
    tr = memory.run_history(case)
    corrupt = any(e["e"] == "corrupt" for e in tr["ev"])
    acc, _, _ = tlc.validate("Trace_GBMemory", [tr], "C19_replay", TRACE_CFG.format(a="NoDev", c="TRUE" if corrupt else "FALSE"))
    print(json.dumps(tr)[:2500])
    if 0 in acc:
        print("replay: trace accepted by the specification")
        return 0
    print(f"VIOLATION property=C19 replay={path}")
    return 1
