"""C02 -- factorization is a faithful partition of the rows."""
import json

from ..core import CheckRun
from ..domains import Rng, all_seqs_upto, compositions
from ..drivers import factorize
from ..env import NULL
from .. import sched

MC = """SPECIFICATION Spec
CHECK_DEADLOCK FALSE
CONSTANTS
  LabelIds = {labels}
  NKeys = {nkeys}
  MaxRows = {rows}
  NChunks = {chunks}
  MonoIgnoresNull = {d3}
  UnifyWrapsNull = {d6}
  LastKeyNullUnchecked = {d2}
INVARIANT FinalFaithful
INVARIANT SortedWhenAsked
INVARIANT LocalFaithful
INVARIANT PointersHit
"""
TRACE_CFG = """SPECIFICATION TraceSpec
CHECK_DEADLOCK FALSE
CONSTANTS
  LabelIds = {1}
  NKeys = 1
  MaxRows = 0
  NChunks = 1
  MonoIgnoresNull = FALSE
  UnifyWrapsNull = FALSE
  LastKeyNullUnchecked = FALSE
"""

# (key encoder, container) combinations that the routes are reached through
ROUTES = [("f64", "np"), ("f64", "series"), ("f64", "index"), ("f64", "pl"), ("f64", "pa"), ("f64", "arrowseries"),
          ("i64", "np"), ("i64", "pa"), ("i64", "pl"), ("i64", "series"), ("i32", "np"),
          ("str", "np"), ("str", "series"), ("str", "index"),
          ("M8", "np"), ("M8", "series"), ("M8", "index"),
          ("cat", "np"), ("catperm", "series"), ("bool", "np"), ("bool", "series"),
          ("f64", "pa_null"), ("i64", "pa_null"), ("i64", "pl_null"), ("str", "pa_null"),
          ("i64", "nullable"), ("bool", "nullable"), ("str", "nullable"), ("f64", "nullable")]
NULLABLE_CONT = {"pa_null", "pl_null", "nullable"}


ARROWISH = {"pa", "pl", "arrowseries"}


def adapt(rng, ids, kenc, cont):
    from ..cases import adapt_keys
    if isinstance(cont, list) or cont in ARROWISH:
        # a NaN inside an arrow float array is a *value* for arrow, not a null: missing arrow keys are
        # driven through real nulls (pa_null / pl_null)
        ids = [(rng.pick([1, 2, 3]) if i == NULL else i) for i in ids]
    if isinstance(cont, str) and cont in NULLABLE_CONT:
        if kenc == "bool":
            return [(i if i == NULL else i % 2) for i in ids]
        return list(ids)
    return adapt_keys(rng, ids, kenc)


def mk(keys1, kenc, cont, sort, T, target, view="ikey", **extra):
    c = dict(keys=[[k] for k in keys1], kenc=[kenc], kcont=cont, sort=sort, T=T, target=target, view=view)
    c.update(extra)
    return c


def build_cases(tier, seed):
    rng = Rng(f"C02-{seed}")
    nmax = 4 if tier == "quick" else 5
    cases = []
    for keys in all_seqs_upto([NULL, 1, 2, 3], nmax):
        keys = list(keys)
        n = len(keys)
        for sort in (0, 1):
            cases.append(mk(keys, "f64", "np", sort, 10 ** 6, "f1d"))
            for T in (10 ** 6, 2, 4):
                for view in ("ikey", "groups"):
                    cases.append(mk(keys, "f64", "np", sort, T, "gb", view))
        # other dtypes / containers / routes, drawn
        for _ in range(3 if tier == "quick" else 6):
            kenc, cont = rng.pick(ROUTES)
            k = adapt(rng, keys, kenc, cont)
            cases.append(mk(k, kenc, cont, rng.randrange(2), rng.pick([10 ** 6, 2, 4]), rng.pick(["gb", "gb", "f1d"]), rng.pick(["ikey", "groups"])))
        # pre-chunked arrow keys: every composition into 2..3 chunks (n <= 4), drawn otherwise
        if n >= 2:
            comps = [c for p in (2, 3) if p <= n for c in compositions(n, p)]
            for comp in (comps if n <= 3 else [rng.pick(comps) for _ in range(3)]):
                kenc = rng.pick(["f64", "i64"])
                k = adapt(rng, keys, kenc, ["pachunk"])
                cases.append(mk(k, kenc, ["pachunk", list(comp)], rng.randrange(2), 10 ** 6, "gb", rng.pick(["ikey", "groups"])))
                # arrow dictionary-typed chunks, each with its own dictionary
                kenc = rng.pick(["str", "i64"])
                k = adapt(rng, keys, kenc, ["pachunkdict"])
                cases.append(mk(k, kenc, ["pachunkdict", list(comp)], rng.randrange(2), 10 ** 6, rng.pick(["gb", "gb", "f1d"]), rng.pick(["ikey", "groups"])))
    # RangeIndex keys
    for n in range(0, 6):
        for step in (1, 2, 3, -1, -2):     # (a negative step: the index of a reversed Series)
            start = rng.randrange(0, 5) if step > 0 else rng.randrange(20, 30)
            for view in ("groups", "ikey"):
                cases.append(dict(keys=[[start + i * step] for i in range(n)], kenc=["raw"], kcont="range", range=[start, step], sort=1, T=10 ** 6, target="gb", view=view))
    # two / three keys: null in every component position
    kmax2 = 3 if tier == "quick" else 4
    A2 = [NULL, 1, 2]
    for n in range(0, kmax2 + 1):
        import itertools
        for rows in itertools.product(itertools.product(A2, A2), repeat=n):
            if tier == "quick" and n == 3 and rng.random() < 0.5:
                continue
            rows = [list(r) for r in rows]
            kenc = [rng.pick(["f64", "str"]), rng.pick(["f64", "str", "cat"])]
            cases.append(dict(keys=rows, kenc=kenc, kcont="np", sort=rng.randrange(2), T=10 ** 6, target=rng.pick(["f2d", "gb"]), view=rng.pick(["ikey", "groups"])))
    for _ in range(600 if tier == "quick" else 6000):
        n = rng.randrange(1, 6)
        rows = [[rng.pick(A2), rng.pick(A2), rng.pick(A2)] for _ in range(n)]
        cases.append(dict(keys=rows, kenc=["f64", "str", "f64"], kcont=rng.pick(["np", "series"]), sort=rng.randrange(2), T=10 ** 6, target=rng.pick(["f2d", "gb"]), view=rng.pick(["ikey", "groups"])))
    # longer keys with a sorted prefix: full / partial monotone routes, chunked remainder (threshold 4)
    for _ in range(2500 if tier == "quick" else 40000):
        n = rng.randrange(4, 13)
        cut = rng.randrange(0, n + 1)
        pre = sorted(rng.pick([1, 2, 3, 4]) for _ in range(cut))
        if rng.random() < 0.4 and cut > 0:
            pre[rng.randrange(cut)] = NULL
        tail = [rng.pick([NULL, 1, 2, 3, 4]) for _ in range(n - cut)]
        keys = pre + tail
        kenc, cont = rng.pick([r for r in ROUTES if r[0] not in ("cat", "catperm", "bool")])
        k = adapt(rng, keys, kenc, cont)
        cases.append(mk(k, kenc, cont, rng.randrange(2), 4, "gb", rng.pick(["ikey", "groups"])))
    return cases


def nontrivial(t):
    ks = [tuple(k) for k in t["keys"] if NULL not in k]
    return len(set(ks)) >= 2 or any(NULL in k for k in t["keys"])


def run(tier):
    ck = CheckRun("C02", tier, rule=(
        "every single-key array over {Null,1,2,3} up to length 4 (quick) / 5 (thorough) through factorize_1d and "
        "GroupBy (sort on/off; threshold inf/2/4 = plain, monotone, partially monotone, chunk-wise routes; raw codes and "
        "the public groups/key_count views) as float ndarray (exhaustive), plus drawn dtype x container routes "
        "(int/str/datetime/categorical/bool; Series/Index/polars/pyarrow/arrow-backed/nullable; pre-chunked arrow with "
        "every chunk layout; RangeIndex), every 2-key array over {Null,1,2}^2 up to length 3 (4), drawn 3-key arrays, and "
        "random keys of length 4..12 with a sorted prefix at threshold 4.  non-trivial = >=2 labels or a null."))
    if tier == "quick":
        ck.mc_bg("GBFactorize", MC.format(labels="{1, 2, 3}", nkeys=1, rows=5, chunks=2, d3="FALSE", d6="FALSE", d2="FALSE"), "routes_n5")
        ck.mc_bg("GBFactorize", MC.format(labels="{1, 2}", nkeys=2, rows=3, chunks=1, d3="FALSE", d6="FALSE", d2="FALSE"), "radix_2keys_n3", workers=2)
    else:
        ck.mc("GBFactorize", MC.format(labels="{1, 2, 3}", nkeys=1, rows=7, chunks=4, d3="FALSE", d6="FALSE", d2="FALSE"), "routes_n7", timeout=7200, heap="24g")
        ck.mc("GBFactorize", MC.format(labels="{1, 2}", nkeys=2, rows=4, chunks=1, d3="FALSE", d6="FALSE", d2="FALSE"), "radix_2keys_n4", timeout=7200)
        ck.mc("GBFactorize", MC.format(labels="{1, 2}", nkeys=3, rows=3, chunks=1, d3="FALSE", d6="FALSE", d2="FALSE"), "radix_3keys_n3", timeout=7200)
    ck.mc_bg("GBFactorize", MC.format(labels="{1, 2}", nkeys=1, rows=4, chunks=2, d3="TRUE", d6="FALSE", d2="FALSE"), "neg_mono_ignores_null", expect="FinalFaithful", workers=1)
    ck.mc_bg("GBFactorize", MC.format(labels="{1, 2}", nkeys=1, rows=4, chunks=2, d3="FALSE", d6="TRUE", d2="FALSE"), "neg_unify_wraps_null", expect="FinalFaithful", workers=1)
    ck.mc_bg("GBFactorize", MC.format(labels="{1, 2}", nkeys=2, rows=3, chunks=1, d3="FALSE", d6="FALSE", d2="TRUE"), "neg_last_key_null", expect="FinalFaithful", workers=1)

    sched.install()
    cases = build_cases(tier, ck.seed)
    warm = [c for c in cases if c["T"] == 10 ** 6 and c.get("kcont") == "np"][:60]
    traces = ck.drive(factorize.run_case, cases, warm_cases=warm)
    ck.exhaustive = True
    routes = {}
    for t in traces:
        if t.get("chunked"):
            routes["chunked"] = routes.get("chunked", 0) + 1
        for e in t.get("events", []):
            routes[e.split(":")[0]] = routes.get(e.split(":")[0], 0) + 1
    ck.notes["routes_observed"] = routes
    rej = ck.validate("Trace_GBFactorize", traces, TRACE_CFG, "traces", nontrivial=nontrivial)
    ck.judge(rej, None, {})
    # several keys with tens of thousands of labels each: the mixed-radix weights cross 2^31 (46341^2) and 2^32 (65536^2)
    scaled = [dict(L=L, nkeys=nk, target=tg) for L in ([46341, 65536] if tier == "quick" else [46340, 46341, 65535, 65536, 70000])
              for nk, tg in ((3, "f2d"), (3, "gb")) + ((() if tier == "quick" else ((4, "f2d"),)))]
    ts = ck.drive(factorize.run_scaled_multikey, scaled, warm_cases=[], procs=4)
    ck.notes["scaled_multikey_probes"] = [[t["L"], t["nkeys"], t["target"], t.get("ngroups")] for t in ts]
    rej = ck.validate("Trace_GBFactorize", ts, TRACE_CFG, "scaled_multikey", nontrivial=lambda t: True, key=lambda t: json.dumps([t["L"], t["nkeys"], t["target"]]))
    ck.judge(rej, None, {})
    ck.assumptions += ["label/code projection (gbverif/drivers/factorize.py) trusted; raw chunked codes are read through the private pointer tables, "
                       "the 'groups' view uses public attributes only"]
    return ck.finish()


def replay(path):
    t = json.load(open(path))
    case = dict(keys=t["keys"], kenc=t["kenc"], sort=t["sort"], target=t["target"], T=t["cfg"].get("T"), view=("groups" if "glabels" in t else "ikey"))
    kc = t["cfg"].get("kcont", "np")
    case["kcont"] = json.loads(kc.replace("'", '"')) if kc.startswith("[") else kc
    tr = factorize.run_case(case)
    from .. import tlc
    acc, _, _ = tlc.validate("Trace_GBFactorize", [tr], "C02_replay", TRACE_CFG)
    print(json.dumps(tr))
    if 0 in acc:
        print("replay: trace accepted by the specification")
        return 0
    print(f"VIOLATION property=C02 replay={path}")
    return 1
