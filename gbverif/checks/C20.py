"""C20 -- stand-alone array helpers agree with their NumPy definitions."""
import itertools
import json

from .. import sched
from ..core import CheckRun
from ..domains import Rng
from ..drivers import helpers
from ..env import NULL

MC = "SPECIFICATION Spec\nCHECK_DEADLOCK FALSE\nCONSTANTS\n  Vals = {vals}\n  MaxLen = {n}\n  MaxThreads = {t}\n  EmptyBlockReadsGarbage = {dev}\n  SplitDropsTail = {dev2}\nINVARIANT ResultIsDef\nINVARIANT BlocksPartition\n"
TRACE_CFG = "SPECIFICATION TraceSpec\nCHECK_DEADLOCK FALSE\nCONSTANTS\n  Vals = {1}\n  MaxLen = 1\n  MaxThreads = 1\n  EmptyBlockReadsGarbage = FALSE\n  SplitDropsTail = FALSE\nINVARIANT TraceInv\n"
FNS = ["sum", "mean", "min", "max", "var", "std", "count"]


def build(rng, tier):
    nan, nan2d, dot, bools, cut = [], [], [], [], []
    nmax = 5 if tier == "quick" else 7
    for n in range(1, nmax + 1):
        for arr in itertools.product([NULL, 1, 2, 3], repeat=n):
            if n >= 5 and rng.random() < (0.85 if tier == "quick" else (0.0 if n <= 5 else 0.7 if n == 6 else 0.93)):
                continue
            for fn in FNS:
                ts = list(range(1, 9)) if n <= 3 else [1] + rng.sample(range(2, 9), 2)
                for t in ([1] if fn == "count" else ts):
                    c = dict(fn=fn, arr=list(arr), t=t)
                    if fn in ("var", "std"):
                        c["ddof"] = rng.randrange(2)
                    nan.append(c)
            if NULL not in arr:
                nan.append(dict(fn=rng.pick(FNS[:4]), arr=list(arr), t=rng.randrange(1, 9), dtype="i64"))
    for _ in range(1500 if tier == "quick" else 20000):
        n = rng.randrange(6, 40)
        arr = [rng.pick([NULL, -3, -1, 0, 1, 2, 5]) for _ in range(n)]
        if rng.random() < 0.2:      # all-null blocks
            k = rng.randrange(0, n)
            arr[k:] = [NULL] * (n - k)
        fn = rng.pick(FNS)
        c = dict(fn=fn, arr=arr, t=rng.randrange(1, 9))
        if fn in ("var", "std"):
            c["ddof"] = rng.randrange(2)
        nan.append(c)
    # every (length, thread count) pair up to 160 (thorough: 600) rows x 8 threads: block bounds must tile the array exactly
    # (each element distinct from its neighbours' contribution: a dropped or doubled element changes sum, count, and the extremes at the ends)
    for n in range(8, 161 if tier == "quick" else 601):
        for t in range(1, 9):
            arr = [rng.pick([1, 2, 3]) for _ in range(n)]
            arr[0], arr[-1] = 5, 7           # extremes at both ends
            if rng.random() < 0.3:
                arr[rng.randrange(1, n - 1)] = NULL
            nan.append(dict(fn=rng.pick(["sum", "count", "max", "mean"]), arr=arr, t=t))
            if tier != "quick" or rng.random() < 0.25:
                nan.append(dict(fn="sum", arr=[1] * n, t=t, dtype="i64"))
    for r, c_ in itertools.product(range(1, 4), range(1, 4)):
        for _ in range(30 if tier == "quick" else 200):
            mat = [[rng.pick([NULL, 1, 2, 3]) for _ in range(c_)] for _ in range(r)]
            nan2d.append(dict(fn=rng.pick(["sum", "min", "max"]), axis=rng.randrange(2), mat=mat, t=rng.pick([1, 2])))
    for r, c_ in itertools.product(range(0, 4), range(1, 4)):
        for _ in range(25 if tier == "quick" else 200):
            dot.append(dict(a=[[rng.randrange(-2, 4) for _ in range(c_)] for _ in range(r)], b=[rng.randrange(-2, 4) for _ in range(c_)],
                            cont=rng.pick(["np", "pd", "pl"]) if r > 0 else "np", dtype=rng.pick(["int64", "float64"])))
    # every boolean frame up to 3 x 3
    for r, c_ in itertools.product(range(1, 4), range(1, 4)):
        for bits in itertools.product((0, 1), repeat=r * c_):
            if r * c_ >= 8 and rng.random() < (0.6 if tier == "quick" else 0.0):
                continue
            bools.append(dict(rows=[list(bits[i * c_:(i + 1) * c_]) for i in range(r)]))
    # every value / bin-edge combination over -1..4 (values equal to edges included)
    edges = list(range(-1, 5))
    for nb in (1, 2, 3):
        for bins in itertools.combinations(edges, nb):
            for isint in (1, 0):
                vals = list(range(-2, 6)) + ([] if isint else [NULL])
                cut.append(dict(vals=vals, bins=list(bins), isint=isint, series=rng.randrange(2)))
    for _ in range(200 if tier == "quick" else 2000):
        bins = sorted(rng.sample(range(-5, 30), rng.randrange(1, 6)))
        if rng.random() < 0.3:
            rng.shuffle(bins)          # "values will be sorted internally"
        isint = rng.randrange(2)
        vals = [rng.randrange(-8, 34) for _ in range(rng.randrange(1, 12))] + ([] if isint else [NULL])
        cut.append(dict(vals=vals, bins=bins, isint=isint, series=rng.randrange(2)))
    return nan, nan2d, dot, bools, cut


def run(tier):
    ck = CheckRun("C20", tier, rule=(
        "nansum/nanmean/nanmin/nanmax/nanvar/nanstd/count on every float array over {Null,1,2,3} up to length 4 (quick: 15% of "
        "n=5) / 5 (30% of 6, 7% of 7) x every thread count 1..8 for n<=3 (three drawn otherwise) x ddof, integer arrays, "
        "random arrays up to 40 with negative values and all-null tails; 2-D sum/min/max per axis; nb_dot on arrays, pandas "
        "and polars frames up to 3x3; every boolean frame up to 3x3; every pretty_cut value/edge combination over -1..4 with "
        "1..3 edges (values equal to edges) for ints and floats with nulls, random unsorted edges.  Each real reducer call "
        "is replayed through GBNanops' block machine (one Task per block, then Combine)."))
    ck.mc_bg("GBNanops", MC.format(vals="{1, 2, 3}", n=4 if tier == "quick" else 6, t=6 if tier == "quick" else 8, dev="FALSE", dev2="FALSE"), "blocks_all_orders")
    ck.mc_bg("GBNanops", MC.format(vals="{1, 2}", n=2, t=4, dev="TRUE", dev2="FALSE"), "neg_empty_block_garbage", expect="ResultIsDef", workers=1)
    ck.mc_bg("GBNanops", MC.format(vals="{1, 2}", n=4, t=4, dev="FALSE", dev2="TRUE"), "neg_split_drops_tail", expect="BlocksPartition", workers=1)
    sched.install()
    rng = Rng(f"C20-{ck.seed}")
    nan, nan2d, dot, bools, cut = build(rng, tier)
    t1 = ck.drive(helpers.run_nan, nan, warm_cases=[c for c in nan if c["t"] == 1][:14])
    t2l = ck.drive(helpers.run_nan2d, nan2d, procs=4)
    t2 = [t for l in t2l for t in (l if isinstance(l, list) else [l])]
    t3 = ck.drive(helpers.run_dot, dot, procs=4)
    t4 = ck.drive(helpers.run_bools, bools, procs=8)
    t5 = ck.drive(helpers.run_cut, cut, procs=8)
    ck.notes["families"] = {"nan_1d": len(t1), "nan_2d_lines": len(t2), "dot": len(t3), "bools": len(t4), "cut": len(t5)}
    rej = ck.validate("Trace_GBHelpers", t1 + t2 + t3 + t4 + t5, TRACE_CFG, "helpers",
                      nontrivial=lambda t: t["kind"] != "nan" or NULL in t["arr"] or t["t"] > 1 or len(t["arr"]) > 1)
    ck.judge(rej, None, {})
    ck.exhaustive = True
    ck.assumptions += ["printed bin bounds are parsed back from pretty_cut's labels by the projection (drivers/helpers.py); mean/var/std recovered as rationals"]
    return ck.finish()


def replay(path):
    t = json.load(open(path))
    print("helper trace; re-run ./check C20:", json.dumps(t)[:600])
    return 0
