"""C09 -- rolling operations are per-group sliding-window reductions."""
import itertools
import json

from .. import sched
from ..abstract import EMB
from ..core import CheckRun
from ..domains import Rng
from ..drivers import rowwise
from ..env import NULL

MC = """SPECIFICATION Spec
CHECK_DEADLOCK FALSE
CONSTANTS
  Groups = {groups}
  Vals = {vals}
  MaxRows = {rows}
  OpSet = {ops}
  WSet = {ws}
  NoRecompute = {norec}
INVARIANT WindowIsDef
INVARIANT ExtremeIsElement
PROPERTY OnlyOwnGroupR
"""
ALLOPS = '{"sum", "mean", "min", "max", "shift", "diff"}'
TRACE_CFG = """SPECIFICATION TraceSpec
CHECK_DEADLOCK FALSE
CONSTANTS
  Groups = {{1, 2, 3, 4, 5}}
  Vals = {{1}}
  MaxRows = 0
  OpSet = {{"sum"}}
  WSet = {{1}}
  NoRecompute = {norec}
  Diag = {diag}
INVARIANT TraceInv
"""
OPS = ["sum", "mean", "min", "max", "shift", "diff"]
NUM_EMBS = ["f64", "f32", "i64", "i32", "u8"]
TIME_EMBS_Q = ["M8ns", "m8ns", "M8s", "M8us"]
TIME_EMBS_T = TIME_EMBS_Q + ["m8s", "M8ns0"]
EXACT_F = ["f64", "f64off"]


def trace_cfg(diag="FALSE", norec="FALSE", inv=True):
    s = TRACE_CFG.format(diag=diag, norec=norec)
    return s if inv else s.replace("INVARIANT TraceInv\n", "")


def pick_emb(rng, op, vals, tier):
    time_embs = TIME_EMBS_Q if tier == "quick" else TIME_EMBS_T
    for _ in range(30):
        if op in ("sum", "mean"):
            emb = rng.pick(NUM_EMBS)
        else:
            emb = rng.pick(NUM_EMBS + time_embs + time_embs)
        if NULL in vals and not EMB[emb].has_null_input:
            continue
        return emb
    return "f64"


def mk(rng, op, W, minp, keys, vals, sel, tier, level=None, emb=None):
    n = len(keys)
    emb = emb or pick_emb(rng, op, vals, tier)
    c = dict(op=op, W=W, minp=minp, keys=list(keys), vals=list(vals), emb=emb, level=level or rng.pick(["api", "api", "numba"]))
    if any(s == 0 for s in sel):
        c["mask"] = {"k": "bool", "b": list(sel)}
        c["mcont"] = rng.pick(["np", "series"])
    if c["level"] == "api":
        c["kenc"] = rng.pick(["f64", "str", "M8", "cat"]) if NULL in keys else rng.pick(["f64", "i64", "str", "cat"])
        c["vcont"] = rng.pick(["np", "series"]) if emb in ("M8s", "m8s") else rng.pick(["np", "series", "pl"])
        if n >= 4 and rng.random() < 0.25:
            c["T"] = rng.pick([2, 4])
        if op in ("sum", "mean", "min", "max") and rng.random() < 0.25 and c["vcont"] != "pl" and EMB[emb].kind == "f":
            c["layout"] = "bygroup"
            c["kenc"] = rng.pick(["f64", "str"]) if NULL in keys else rng.pick(["f64", "i64", "str"])
    return c


def wm(rng, n=None):
    W = rng.pick([1, 2, 2, 3, 3])
    return W, rng.randrange(1, W + 1)


def build_cases(tier, seed):
    rng = Rng(f"C09-{seed}")
    cases = []
    n2 = 3 if tier == "quick" else 4
    for n in range(0, n2 + 1):
        for keys in itertools.product([NULL, 1, 2], repeat=n):
            for vals in itertools.product([NULL, 1, 2, 3], repeat=n):
                if tier == "quick" and n == 3 and rng.random() < 0.5:
                    continue
                for op in OPS:
                    W, mp = wm(rng)
                    cases.append(dict(op=op, W=W, minp=mp, keys=list(keys), vals=list(vals), emb="f64", level="numba"))
                W, mp = wm(rng)
                cases.append(mk(rng, rng.pick(OPS), W, mp, keys, vals, [1] * n, tier))
    # one group: (value in {Null,1,2}) x (selected | masked | null key); all W, min_periods for short ones
    n1 = 5 if tier == "quick" else 7
    for n in range(1, n1 + 1):
        for vals in itertools.product([NULL, 1, 2], repeat=n):
            for kinds in itertools.product("smn", repeat=n):
                p = 1.0 if n <= 3 else (0.25 if n == 4 else 0.04) if tier == "quick" else (1.0 if n <= 4 else 0.2 if n == 5 else 0.04 if n == 6 else 0.01)
                if rng.random() > p:
                    continue
                keys = [NULL if k == "n" else 1 for k in kinds]
                sel = [0 if k == "m" else 1 for k in kinds]
                if n <= 3:
                    for W in (1, 2, 3):
                        for mp in range(1, W + 1):
                            op = rng.pick(OPS)
                            cases.append(dict(op=op, W=W, minp=mp, keys=keys, vals=list(vals), emb="f64", level="numba", mask={"k": "bool", "b": sel}))
                W, mp = wm(rng)
                cases.append(mk(rng, rng.pick(OPS), W, mp, keys, vals, sel, tier))
                W, mp = wm(rng)
                cases.append(mk(rng, rng.pick(["min", "max", "shift", "diff"]), W, mp, keys, vals, sel, tier, emb=rng.pick(TIME_EMBS_Q)))
    for _ in range(3000 if tier == "quick" else 40000):
        n = rng.randrange(5, 81) if rng.random() < 0.4 else rng.randrange(4, 12)
        keys = [rng.pick([NULL, 1, 2, 3]) for _ in range(n)]
        vals = [rng.pick([NULL, 1, 2, 3]) for _ in range(n)]
        sel = [int(rng.random() < 0.7) for _ in range(n)] if rng.random() < 0.6 else [1] * n
        W = rng.randrange(1, 6)
        cases.append(mk(rng, rng.pick(OPS), W, rng.randrange(1, W + 1), keys, vals, sel, tier))
    return cases


def nontrivial(t):
    ks = {k for k in t["keys"] if k != NULL}
    return len(ks) >= 2 or NULL in t["keys"] or NULL in t["vals"] or 0 in t["sel"] or len(t["keys"]) > t["W"]


def run(tier):
    ck = CheckRun("C09", tier, rule=(
        "2-group+null-key key sequences x value sequences over {Null,1,2,3} up to length 3 (quick, half of n=3) / 4 x 6 "
        "operations with drawn window 1..3 and min_periods 1..window (float, kernel entry), single-group sequences over "
        "{Null,1,2} x {selected, masked, null key} up to length 5 (7) with every (window, min_periods) for n<=3, plus drawn "
        "dtype (float32/64, ints, datetime64[ns|us|s], timedelta64) with 2^55-based timestamps for exactness, API/kernel "
        "entry, containers, chunked keys, group-sorted layout, random rows up to 80 with windows up to 5."))
    if tier == "quick":
        ck.mc_bg("GBRolling", MC.format(groups="{1}", vals="{1, 2}", rows=4, ops=ALLOPS, ws="{1, 2, 3}", norec="FALSE"), "deep_1group_n4")
        ck.mc_bg("GBRolling", MC.format(groups="{1, 2}", vals="{1, 2}", rows=3, ops=ALLOPS, ws="{1, 2}", norec="FALSE"), "deep_2groups_n3", workers=4)
    else:
        ck.mc("GBRolling", MC.format(groups="{1}", vals="{1, 2}", rows=6, ops=ALLOPS, ws="{1, 2, 3}", norec="FALSE"), "deep_1group_n6", timeout=14400, heap="32g")
        ck.mc("GBRolling", MC.format(groups="{1, 2}", vals="{1, 2}", rows=4, ops=ALLOPS, ws="{1, 2}", norec="FALSE"), "deep_2groups_n4", timeout=14400, heap="32g")
    ck.mc_bg("GBRolling", MC.format(groups="{1}", vals="{1, 2}", rows=4, ops='{"max"}', ws="{2}", norec="TRUE"), "neg_no_recompute", expect="WindowIsDef", workers=1)

    sched.install()
    cases = build_cases(tier, ck.seed)
    warm = [c for c in cases if c.get("level") == "numba" and c["emb"] == "f64" and "mask" not in c][:60]
    traces = ck.drive(rowwise.run_roll, cases, warm_cases=warm, group=lambda c: EMB[c["emb"]].dtype.str if EMB[c["emb"]].kind not in "mM" else "<i8")
    ck.exhaustive = True
    rej = ck.validate("Trace_GBRolling", traces, trace_cfg(), "traces", nontrivial=nontrivial, diag_cfg=trace_cfg(diag="TRUE", inv=False))
    ck.judge(rej, "Trace_GBRolling", {})
    # long groups (beyond the 2^15 / 2^16 ranges of narrow row counters): the definition evaluated directly on the logged
    # sequences (Trace_GBRolling long mode), one TLC run per trace
    sizes = [32770, 33000] if tier == "quick" else [32770, 33000, 65540, 70000]
    longs = []
    for j, n in enumerate(sizes):
        for op in (["shift", "diff"] if tier == "quick" else ["shift", "diff", "sum", "max", "min"]):
            W = 1 + (j + len(longs)) % 3
            longs.append(dict(op=op, W=W, minp=W, keys=[1] * n, vals=[1 + (r * 7 % 5) for r in range(n)], emb=("f64" if len(longs) % 2 else "i64"),
                              level=("api" if len(longs) % 3 else "numba"), kenc="f64", vcont="np", long=1))
    # long WINDOWS (2^15 rows and more: beyond 16-bit window positions / counts), periodic values with a closed-form definition
    for W, P in ([(32768, 32771), (40000, 39989)] if tier == "quick" else [(32767, 32771), (32768, 32771), (40000, 39989), (66000, 66013), (65536, 1000)]):
        n = W + 30011
        for op in (["sum", "max"] if tier == "quick" else ["sum", "max", "min", "shift", "diff"]):
            longs.append(dict(op=op, W=W, minp=(1 if len(longs) % 2 else W), keys=[1] * n, vals=[2 if r % P == 0 else 1 for r in range(1, n + 1)],
                              emb=("f64" if len(longs) % 3 else "i64"), level=("api" if len(longs) % 2 else "numba"), kenc="f64", vcont="np", long=1, period=P))
    tl = ck.drive(rowwise.run_roll, longs, warm_cases=[], procs=4)
    for k, t in enumerate(tl):
        rej = ck.validate("Trace_GBRolling", [t], trace_cfg(), f"long{k}", nontrivial=lambda t: True, key=lambda t: json.dumps([t["op"], t["W"], len(t["keys"]), t["emb"]]))
        ck.judge(rej, None, {})
    ck.notes["long_runs"] = [[t["op"], t["W"], len(t["keys"]), t.get("period")] for t in tl]
    ck.assumptions += ["embeddings / projection trusted; integer inputs are rolled through float64 by design (exactness is claimed for float and temporal inputs only)",
                       "outputs at null-key and unselected rows are not judged by C09"]
    return ck.finish()


def replay(path):
    t = json.load(open(path))
    case = dict(op=t["op"], W=t["W"], minp=t["minp"], keys=t["keys"], vals=t["vals"], emb=t["emb"], mask=t.get("mask", {"k": "none"}))
    case.update({k: v for k, v in t["cfg"].items() if v is not None})
    tr = rowwise.run_roll(case)
    from .. import tlc
    acc, _, _ = tlc.validate("Trace_GBRolling", [tr], "C09_replay", trace_cfg())
    print(json.dumps(tr))
    if 0 in acc:
        print("replay: trace accepted by the specification")
        return 0
    print(f"VIOLATION property=C09 replay={path}")
    return 1
