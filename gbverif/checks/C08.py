"""C08 -- cumulative operations are per-group prefix reductions."""
import itertools
import json

from .. import sched
from ..abstract import EMB
from ..core import CheckRun
from ..domains import Rng, compositions
from ..drivers import rowwise
from ..env import NULL

MC = """SPECIFICATION Spec
CHECK_DEADLOCK FALSE
CONSTANTS
  Groups = {groups}
  Vals = {vals}
  MaxRows = {rows}
  OpSet = {ops}
  StateLeaks = {leak}
INVARIANT PrefixIsDef
INVARIANT LastIsReduction
PROPERTY OnlyOwnGroup
"""
ALLOPS = '{"cumsum", "cumsum_na", "cummin", "cummax", "cumcount"}'
TRACE_CFG = """SPECIFICATION TraceSpec
CHECK_DEADLOCK FALSE
CONSTANTS
  Groups = {{1, 2, 3, 4, 5}}
  Vals = {{1}}
  MaxRows = 0
  OpSet = {{"cumsum"}}
  StateLeaks = FALSE
  Diag = {diag}
INVARIANT TraceInv
"""
OPS = ["cumsum", "cumsum_na", "cummin", "cummax", "cumcount"]
EMBS_Q = ["f64", "f32", "i64", "i64big", "u64big", "i32", "u8", "bool", "M8ns", "m8ns", "M8s", "i8lo"]
EMBS_T = EMBS_Q + ["i8", "u64", "M8us", "m8s", "M8ns0", "i16lo", "i32lo"]


def mk(rng, op, keys, vals, sel, embs, level=None):
    n = len(keys)
    for _ in range(30):
        emb = rng.pick(embs)
        e = EMB[emb]
        if NULL in vals and not e.has_null_input:
            continue
        if op == "cumsum_na" and e.kind not in "f":
            continue      # "a null makes the running sum null": only floats can carry a null sum
        if emb.endswith("lo") and op in ("cumsum", "cumsum_na"):
            continue      # bottom-of-range embeddings: running extremes and counts only
        break
    else:
        emb = "f64"
    v = [x % 2 for x in vals] if emb == "bool" else list(vals)
    c = dict(op=op, keys=list(keys), vals=v, emb=emb, level=level or rng.pick(["api", "api", "numba"]))
    if any(s == 0 for s in sel):
        c["mask"] = {"k": "bool", "b": list(sel)}
        c["mcont"] = rng.pick(["np", "series"])
    elif rng.random() < 0.2:
        c["mask"] = {"k": "bool", "b": [1] * n}
    if c["level"] == "api":
        c["kenc"] = rng.pick(["f64", "str", "M8", "cat"]) if NULL in keys else rng.pick(["f64", "i64", "str", "cat"])
        c["vcont"] = rng.pick(["np", "series", "pl"])
        if c["vcont"] == "pl" and emb in ("M8s", "m8s"):
            c["vcont"] = "series"       # polars has no second resolution
        if n >= 4 and rng.random() < 0.3:
            c["T"] = rng.pick([2, 4])
    elif n >= 2 and rng.random() < 0.3 and EMB[emb].kind in "fiu" and emb != "bool":
        c["vcont"] = ["pachunk", list(rng.pick(list(compositions(n, min(n, rng.pick([2, 3]))))))]
    return c


def build_cases(tier, seed):
    rng = Rng(f"C08-{seed}")
    embs = EMBS_Q if tier == "quick" else EMBS_T
    cases = []
    # two groups + null key, all values, all rows selected
    n2 = 3 if tier == "quick" else 4
    for n in range(0, n2 + 1):
        for keys in itertools.product([NULL, 1, 2], repeat=n):
            for vals in itertools.product([NULL, 1, 2, 3], repeat=n):
                for op in OPS:
                    cases.append(dict(op=op, keys=list(keys), vals=list(vals), emb="f64", level="api", kenc="f64"))
                cases.append(mk(rng, rng.pick(OPS), keys, vals, [1] * n, embs))
    # one group: every sequence of (value in {Null,1,2}) x (selected | masked | null key)
    n1 = 4 if tier == "quick" else 6
    for n in range(1, n1 + 1):
        for vals in itertools.product([NULL, 1, 2], repeat=n):
            for kinds in itertools.product("smn", repeat=n):
                keys = [NULL if k == "n" else 1 for k in kinds]
                sel = [0 if k == "m" else 1 for k in kinds]
                if n <= 4:
                    for op in OPS:
                        cases.append(dict(op=op, keys=keys, vals=list(vals), emb="f64", level="numba",
                                          mask={"k": "bool", "b": sel}))
                if n <= 3 or rng.random() < (0.3 if tier == "quick" else 0.15):
                    cases.append(mk(rng, rng.pick(OPS), keys, vals, sel, embs))
    for _ in range(3000 if tier == "quick" else 40000):
        n = rng.randrange(5, 61) if rng.random() < 0.4 else rng.randrange(4, 10)
        keys = [rng.pick([NULL, 1, 2, 3]) for _ in range(n)]
        vals = [rng.pick([NULL, 1, 2, 3]) for _ in range(n)]
        sel = [int(rng.random() < 0.7) for _ in range(n)] if rng.random() < 0.6 else [1] * n
        cases.append(mk(rng, rng.pick(OPS), keys, vals, sel, embs))
    # long groups: running counts / sums beyond the ranges of 8- and 16-bit integers (codes of categorical and boolean
    # keys are int8, small value dtypes are 8 bit)
    sizes = [129, 200, 300] if tier == "quick" else [129, 200, 300, 1000]   # (every row is one TLC state holding the row history: 66000-row traces took > 20 min each)
    for s_ in sizes:
        for kenc, ids in [("cat", [1, 2]), ("catperm", [3, 1]), ("f64", [1, 2]), ("i64", [1, 2])]:
            keys = []
            for j in range(s_):
                keys.append(ids[0])
                if j % 50 == 7:
                    keys.append(ids[1])
                if j % 90 == 11 and kenc in ("cat", "catperm", "f64"):
                    keys.append(NULL)
            for op, emb in [("cumcount", "f64"), ("cumsum", "i8"), ("cumsum", "u8"), ("cummax", "i8")] if s_ < 1000 else [("cumcount", "f64")]:
                vals = [1 + (j % 3) for j in range(len(keys))]
                cases.append(dict(op=op, keys=keys, vals=vals, emb=emb, level="api", kenc=kenc, vcont=rng.pick(["np", "series"])))
    return cases


def long_cases(tier):
    """groups of 33000 / 66000 (thorough: 140000) rows on the periodic input of Trace_GBCumulative's long mode."""
    out = []
    for n in ([33000, 66000] if tier == "quick" else [33000, 66000, 140000]):
        keys = [NULL if r % 90 == 0 else 2 if r % 50 == 0 else 1 for r in range(1, n + 1)]
        plan = [("cumcount", "f64", "cat"), ("cumsum", "i8", "f64"), ("cummax", "i16", "catperm"), ("cummin", "f64", "f64")] if tier == "quick" else \
               [("cumcount", "f64", "cat"), ("cumcount", "f64", "f64"), ("cumsum", "i8", "f64"), ("cumsum", "u8", "cat"), ("cumsum", "i64", "f64"), ("cumsum", "f64", "catperm"),
                ("cummax", "i16", "catperm"), ("cummax", "f64", "f64"), ("cummin", "f64", "f64"), ("cummin", "i8", "cat")]
        for op, emb, kenc in plan:
            vals = [(2 if r % 7 == 0 else 1) if op == "cummax" else (1 if r % 7 == 0 else 2) if op == "cummin" else 1 for r in range(1, n + 1)]
            out.append(dict(op=op, keys=list(keys), vals=vals, emb=emb, level="api", kenc=kenc, vcont="np", long=1))
    return out


def nontrivial(t):
    ks = {k for k in t["keys"] if k != NULL}
    return len(ks) >= 2 or NULL in t["keys"] or NULL in t["vals"] or 0 in t["sel"]


def run(tier):
    ck = CheckRun("C08", tier, rule=(
        "every 2-group+null-key key sequence x value sequence over {Null,1,2,3} up to length 3 (quick) / 4 (thorough) x 5 "
        "operations (cumsum with and without null skipping, cummin, cummax, cumcount) on floats (exhaustive), every "
        "single-group sequence over {Null,1,2} x {selected, masked, null key} up to length 4 (6), drawn dtype+embedding "
        "(exactness through 2^53-/2^55-based ints and timestamps), API vs kernel entry, containers, chunked values, chunked "
        "keys, random rows up to 60.  Every judged row's output is one observation of a RowCum action."))
    if tier == "quick":
        ck.mc_bg("GBCumulative", MC.format(groups="{1, 2}", vals="{1, 2}", rows=4, ops=ALLOPS, leak="FALSE"), "deep_n4")
    else:
        ck.mc("GBCumulative", MC.format(groups="{1, 2}", vals="{1, 2}", rows=6, ops='{"cumsum", "cummin", "cumcount"}', leak="FALSE"), "deep_n6", timeout=10800, heap="32g")
        ck.mc("GBCumulative", MC.format(groups="{1, 2}", vals="{1, 2}", rows=5, ops=ALLOPS, leak="FALSE"), "deep_n5", timeout=7200, heap="24g")
    ck.mc_bg("GBCumulative", MC.format(groups="{1, 2}", vals="{1}", rows=3, ops='{"cumsum"}', leak="TRUE"), "neg_state_leaks", expect="OnlyOwnGroup", workers=1)

    sched.install()
    cases = build_cases(tier, ck.seed)
    warm = [c for c in cases if c.get("level") == "numba" and c["emb"] == "f64"][:40] + [c for c in cases if c.get("level") == "api" and c["emb"] == "f64" and "T" not in c][:40]
    traces = ck.drive(rowwise.run_cum, cases, warm_cases=warm, group=lambda c: EMB[c["emb"]].dtype.str if EMB[c["emb"]].kind not in "mM" else "<i8")
    ck.exhaustive = True
    rej = ck.validate("Trace_GBCumulative", traces, TRACE_CFG.format(diag="FALSE"), "traces", nontrivial=nontrivial,
                      diag_cfg=TRACE_CFG.format(diag="TRUE").replace("INVARIANT TraceInv\n", ""))
    ck.judge(rej, "Trace_GBCumulative", {})
    # long groups, closed-form definition (one TLC run per trace: the JSON of a 140000-row trace is large)
    tl = ck.drive(rowwise.run_cum, long_cases(tier), warm_cases=[], procs=4)
    for k, t in enumerate(tl):
        rej = ck.validate("Trace_GBCumulative", [t], TRACE_CFG.format(diag="FALSE"), f"long{k}", nontrivial=lambda t: True,
                          key=lambda t: json.dumps([t["op"], len(t["keys"]), t["emb"], t["cfg"].get("kenc")]))
        ck.judge(rej, None, {})
    ck.notes["long_runs"] = [[t["op"], len(t["keys"]), t["emb"], t["cfg"].get("kenc")] for t in tl]
    ck.assumptions += ["value embeddings / projection trusted; outputs at null-key and unselected rows are not judged by C08 (C06/C05 judge them)",
                       "cumsum without null skipping is judged on float values only (no other dtype can carry a null sum)"]
    return ck.finish()


def replay(path):
    t = json.load(open(path))
    case = dict(op=t["op"], keys=t["keys"], vals=t["vals"], emb=t["emb"], mask=t.get("mask", {"k": "none"}))
    case.update({k: v for k, v in t["cfg"].items() if v is not None})
    tr = rowwise.run_cum(case)
    from .. import tlc
    acc, _, _ = tlc.validate("Trace_GBCumulative", [tr], "C08_replay", TRACE_CFG.format(diag="FALSE"))
    print(json.dumps(tr))
    if 0 in acc:
        print("replay: trace accepted by the specification")
        return 0
    print(f"VIOLATION property=C08 replay={path}")
    return 1
