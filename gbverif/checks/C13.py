"""C13 -- a GroupBy object can be reused: results are history-independent."""
import collections
import json
import re

from .. import sched, tlc
from ..core import CheckRun, Machinery
from ..domains import Rng
from ..drivers import history
from ..env import NULL, SPEC, WORK

MC = "SPECIFICATION Spec\nCHECK_DEADLOCK FALSE\nCONSTANTS\n  UnifyNeedsPointers = {d12}\n  CopyDropsFields = {d13}\n  MemoByIdentity = {d14}\nINVARIANT TypeOK\nINVARIANT AnswersCurrent\nINVARIANT AlwaysEnabled\nPROPERTY NoWayBack\nPROPERTY CachesGrowOrReset\n"
TRACE_CFG = "SPECIFICATION TraceSpec\nCHECK_DEADLOCK FALSE\nCONSTANTS\n  UnifyNeedsPointers = FALSE\n  CopyDropsFields = FALSE\n  MemoByIdentity = FALSE\n"


def state_graph():
    """TLC dumps the labelled state graph of GBObject; returns (inits {id: rep}, edges [(src, op, dst)])."""
    wd = tlc.workdir("C13_graph")
    (wd / "g.cfg").write_text(MC.format(d12="FALSE", d13="FALSE", d14="FALSE"))
    rc, out = tlc._java(["-workers", "2", "-metadir", str(wd / "meta"), "-noGenerateSpecTE", "-config", str(wd / "g.cfg"),
                         "-dump", "dot,actionlabels", str(wd / "graph"), str(SPEC / "GBObject.tla")], cwd=str(SPEC), timeout=600)
    dot = (wd / "graph.dot").read_text()
    inits, edges = {}, []
    for m in re.finditer(r'^(-?\d+) \[label="(.*?)"(,style = filled)?\]', dot, re.M):
        if m.group(3):
            rep = re.search(r'rep = \\"(\w+)\\"', m.group(2)).group(1)
            inits[m.group(1)] = rep
    for m in re.finditer(r'^(-?\d+) -> (-?\d+) \[label="Do\(\\"(\w+)\\"\)"', dot, re.M):
        edges.append((m.group(1), m.group(3), m.group(2)))
    for m in re.finditer(r'^(-?\d+) -> (-?\d+) \[label="Refill"', dot, re.M):
        edges.append((m.group(1), "refill", m.group(2)))
    if not inits or not edges:
        raise Machinery("could not parse TLC's state graph dump")
    return inits, edges


def paths_to_edges(inits, edges):
    """for every edge: initial representation + shortest operation sequence that ends with that edge."""
    adj = collections.defaultdict(list)
    for s, op, d in edges:
        adj[s].append((op, d))
    best = {}
    q = collections.deque()
    for i, rep in inits.items():
        best[i] = (rep, [])
        q.append(i)
    while q:
        s = q.popleft()
        for op, d in adj[s]:
            if d not in best:
                best[d] = (best[s][0], best[s][1] + [op])
                q.append(d)
    return [(best[s][0], best[s][1] + [op]) for s, op, d in edges if s in best]


KEYSETS = [
    [3, 1, NULL, 1, 2, NULL, 2, 3],          # nulls, unsorted first appearance
    [1, 1, 2, 2, 3, 1, 3, 2, 1],              # partially monotone prefix
    [2, 2, 2, 1, 3, 3, 1, 1],
    [NULL, 4, 4, 1, NULL, 1, 2, 2, 3, 3, 4],
    [1, 2, 3, 4, 1, 2, 3, 4],
    [2, 1, 2, 1, 2, 1, 2, 1, 3],
]


def run(tier):
    ck = CheckRun("C13", tier, rule=(
        "TLC enumerates every history of the 12 operation classes over the three key representations (GBObject, state graph "
        "dumped with action labels); one real replay per transition of that graph (shortest path to the edge) on several "
        "key arrays (nulls, unsorted first appearance, partially monotone, flat and chunked at threshold 4) and key dtypes, "
        "plus random walks of 10..30 operations over the same graph; after every call the result is compared with the same "
        "call on a freshly built grouping and the projected representation with the specification's state.  A trace is "
        "non-trivial if it reaches a representation change or a copy; distinct = distinct (keys, init, operation sequence)."))
    ck.mc("GBObject", MC.format(d12="FALSE", d13="FALSE", d14="FALSE"), "object_histories", workers=4)
    ck.mc_bg("GBObject", MC.format(d12="TRUE", d13="FALSE", d14="FALSE"), "neg_unify_needs_pointers", expect="AlwaysEnabled", workers=1)
    ck.mc_bg("GBObject", MC.format(d12="FALSE", d13="TRUE", d14="FALSE"), "neg_copy_drops_fields", expect="AlwaysEnabled", workers=1)
    ck.mc_bg("GBObject", MC.format(d12="FALSE", d13="FALSE", d14="TRUE"), "neg_memo_by_identity", expect="AnswersCurrent", workers=1)
    inits, edges = state_graph()
    paths = paths_to_edges(inits, edges)
    rng = Rng(f"C13-{ck.seed}")
    cases = []
    nsets = 3 if tier == "quick" else len(KEYSETS)
    for init, ops in paths:
        for ks in rng.sample(KEYSETS, nsets):
            kenc = rng.pick(["f64", "f64", "str", "M8"]) if NULL in ks else rng.pick(["f64", "i64", "str"])
            if False and kenc == "str" and ks[0] == NULL:      # (constructor failure repaired in 0f71cb3: string keys with a leading null are driven)
                kenc = "f64"          # (constructor failure on the chunked route: known finding of C02)
            cases.append(dict(keys=ks, kenc=kenc, init=init, ops=ops, seed=rng.randrange(10 ** 9)))
    # random walks over the same graph
    adj = collections.defaultdict(list)
    for s, op, d in edges:
        adj[s].append((op, d))
    for _ in range(400 if tier == "quick" else 6000):
        s = rng.pick(sorted(inits))
        init, ops = inits[s], []
        for _ in range(rng.randrange(10, 31)):
            op, s = rng.pick(adj[s])
            ops.append(op)
        ks = [rng.pick([NULL, 1, 2, 3, 4]) for _ in range(rng.randrange(6, 16))]
        kenc = rng.pick(["f64", "f64", "M8"])
        cases.append(dict(keys=ks, kenc=kenc, init=init, ops=ops, seed=rng.randrange(10 ** 9)))
    sched.install()
    traces = ck.drive(history.run_history, cases, warm_cases=[c for c in cases if c["init"] == "flat" and c["kenc"] == "f64" and not any(o in ("reduce", "classcall", "copy", "transform", "apply") for o in c["ops"])][:3])
    ck.notes["graph"] = {"init_states": len(inits), "transitions": len(edges), "replayed_transitions": len(paths)}
    reps = collections.Counter(e["rep"] for t in traces for e in t["ev"])
    ck.notes["representations_observed"] = dict(reps)
    rej = ck.validate("Trace_GBObject", traces, TRACE_CFG, "histories",
                      nontrivial=lambda t: any(e["op"] in ("transform", "groups", "select", "cumroll", "apply", "copy") for e in t["ev"]),
                      key=lambda t: json.dumps([t["keys"], t["init"], t["cfg"]["ops"]]))
    if rej:
        # the projected representation is an internal observation (a private attribute): a history whose every call returned what
        # a fresh grouping returns is not a violation because the object re-organised itself differently -- reported, not judged
        import copy
        blind = copy.deepcopy(rej)
        for t in blind:
            for e in t["ev"]:
                e["rep"] = "unobservable"
        rej2 = ck.validate("Trace_GBObject", blind, TRACE_CFG, "histories_results_only")
        ck.evaluations -= len(blind)
        ck.notes["representation_divergence_with_correct_results"] = len(rej) - len(rej2)
        rej = rej2
    ck.judge(rej, None, {})
    ck.exhaustive = True
    ck.assumptions += ["equality of a result with the fresh object's result is computed by the driver (pandas/NumPy equality, NaN-aware)",
                       "the representation is read from key_is_chunked and the private _group_key_pointers (skipped if unobservable)"]
    return ck.finish()


def replay(path):
    t = json.load(open(path))
    case = dict(keys=t["keys"], kenc=t["cfg"]["kenc"], init=t["init"], ops=t["cfg"]["ops"], seed=t["cfg"]["seed"])
    tr = history.run_history(case)
    acc, _, _ = tlc.validate("Trace_GBObject", [tr], "C13_replay", TRACE_CFG)
    print(json.dumps(tr)[:1500])
    if 0 in acc:
        print("replay: trace accepted by the specification")
        return 0
    print(f"VIOLATION property=C13 replay={path}")
    return 1
