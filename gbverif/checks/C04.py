"""C04 -- block-wise reduction equals single-pass reduction (kernel contract)."""
import json

from .. import runner, sched
from .. import tlc
from ..core import CheckRun
from ..domains import (Rng, all_bool_masks, all_pos_masks, all_slices, compositions, pairs_upto)
from ..drivers import kernels
from ..env import NULL

CODES = [-1, 0, 1, 2]
VALS = [NULL, 1, 2, 3]

MC = """SPECIFICATION Spec
CHECK_DEADLOCK FALSE
CONSTANTS
  NG = {ng}
  Vals = {vals}
  MaxRows = {rows}
  MaxBlocks = {blocks}
  KernelSet = {kernels}
  MergeUsesCount = {muc}
  IsFloat = {isf}
INVARIANT SingleIsDef
INVARIANT BlocksAreSingle
INVARIANT CountIsDef
INVARIANT CountGuardsAcc
PROPERTY NullKeyStutters
"""
ALLK = '{"size", "count", "sum", "sumsq", "min", "max", "first", "last"}'

TRACE_CFG = """SPECIFICATION TraceSpec
CHECK_DEADLOCK FALSE
CONSTANTS
  NG = 3
  Vals = {{1, 2, 3}}
  MaxRows = 0
  MaxBlocks = 0
  KernelSet = {{"sum"}}
  MergeUsesCount = {muc}
  IsFloat = {isf}
  Diag = {diag}
INVARIANT TraceInv
"""


def trace_cfg(muc="TRUE", isf="TRUE", diag="FALSE", inv=True):
    s = TRACE_CFG.format(muc=muc, isf=isf, diag=diag)
    return s if inv else s.replace("INVARIANT TraceInv\n", "")


EMBS_Q = ["f64", "f32", "i64", "i64big", "u64big", "i32", "u8", "bool", "M8ns", "M8ns0", "m8ns", "M8s", "i8lo"]
EMBS_T = EMBS_Q + ["i8", "u64", "m8s", "M8us", "m8ns0", "i16lo", "i32lo"]
CHUNKABLE = {"f64", "f32", "i64", "i64big", "i32", "i8", "u8", "u64"}


def draw_config(rng, codes, vals, embs, masks_by_n):
    n = len(codes)
    has_null = NULL in vals
    for _ in range(50):
        op = rng.pick(kernels.OPS)
        emb = rng.pick(embs)
        e = kernels.EMB[emb]
        if has_null and not e.has_null_input:
            continue
        if not kernels.supported(op, emb):
            continue
        v = list(vals)
        if emb == "bool":
            v = [x % 2 for x in v]
        mk = rng.pick(["none", "bool", "slice", "pos"])
        mask = {"k": "none"} if mk == "none" else rng.pick(masks_by_n[n][mk])
        if rng.random() < 0.6 or n < 2 or not (emb in CHUNKABLE or (e.kind in "mM" and not has_null)):
            split = ("t", rng.pick([1, 2, 2, 3, 4]))
        else:
            parts = min(n, rng.pick([2, 2, 3]))
            comps = list(compositions(n, parts, allow_zero=(rng.random() < 0.25)))
            split = ("c", rng.pick(comps))
        return dict(op=op, codes=list(codes), vals=v, emb=emb, mask=mask, split=split)
    return dict(op="sum", codes=list(codes), vals=list(vals), emb="f64", mask={"k": "none"}, split=("t", 1))


def nontrivial(t):
    c = [x for x in t["codes"] if x >= 0]
    return (len(set(c)) >= 2 or -1 in t["codes"] or NULL in t["vals"] or t["mask"]["k"] != "none"
            or t["split"] != ["t", 1])


def order_key(c):
    return (kernels.EMB[c["emb"]].dtype.str, c["op"], c["mask"]["k"], c["split"][0])


def build_cases(tier, seed):
    rng = Rng(f"C04-{seed}")
    nmax_a = 3 if tier == "quick" else 4
    embs = EMBS_Q if tier == "quick" else EMBS_T
    masks_by_n = {n: {"bool": all_bool_masks(n), "slice": all_slices(n), "pos": all_pos_masks(n, 3 if n <= 3 else 2)}
                  for n in range(0, 7)}
    A, B = [], []
    for codes, vals in pairs_upto(CODES, VALS, nmax_a):
        for op in kernels.OPS:
            A.append(dict(op=op, codes=codes, vals=vals, emb="f64", mask={"k": "none"}, split=("t", 1)))
        # every boolean mask of this length on the same input is part of the exhaustive core for n <= 2
        if len(codes) <= 2:
            for m in masks_by_n[len(codes)]["bool"] + masks_by_n[len(codes)]["slice"] + masks_by_n[len(codes)]["pos"]:
                A.append(dict(op=rng.pick(kernels.OPS), codes=codes, vals=vals, emb="f64", mask=m, split=("t", rng.pick([1, 2, 3]))))
        k = 5 if tier == "quick" else (6 if len(codes) <= 3 else 3)
        for _ in range(k):
            B.append(draw_config(rng, codes, vals, embs, masks_by_n))
    # longer inputs, sampled
    n_long = 4000 if tier == "quick" else 60000
    for _ in range(n_long):
        n = rng.pick([4, 4, 5, 6] if tier == "quick" else [5, 5, 6, 6])
        codes = [rng.pick(CODES) for _ in range(n)]
        vals = [rng.pick(VALS if n <= 5 else [NULL, 1, 2]) for _ in range(n)]
        B.append(draw_config(rng, codes, vals, embs, masks_by_n))
    B.sort(key=order_key)
    return A, B


def run(tier):
    ck = CheckRun("C04", tier, rule=(
        "A: every (codes, values) pair over {-1,0,1,2} x {Null,1,2,3} up to length 3 (quick) / 4 (thorough) x 9 kernels, "
        "float64, single block, no mask (exhaustive) plus every bool/slice/positional mask for n<=2; "
        "B: seeded random (kernel, dtype+embedding, mask kind, thread count 1..4 or arrow chunk layout) per pair "
        "and for sampled inputs of length 4..6.  A trace is non-trivial if it has >= 2 groups, a null key, a null "
        "value, a mask, or more than one block; distinct = distinct call (input+config)."))
    # 1. the specification itself (TLC, exhaustive within the bounds)
    if tier == "quick":
        ck.mc_bg("GBReduce", MC.format(ng=2, vals="{1, 2, 3}", rows=5, blocks=3, kernels=ALLK, muc="TRUE", isf="TRUE"), "deep_n5")
    else:
        ck.mc("GBReduce", MC.format(ng=2, vals="{1, 2, 3}", rows=7, blocks=4, kernels=ALLK, muc="TRUE", isf="TRUE"), "deep_n7", timeout=7200, heap="24g")
        ck.mc("GBReduce", MC.format(ng=3, vals="{1, 2}", rows=6, blocks=3, kernels=ALLK, muc="TRUE", isf="TRUE"), "deep_g3_n6", timeout=7200, heap="24g")
    # vacuity guards: the deviation of D5 must be refuted by TLC, for both null representations
    ck.mc_bg("GBReduce", MC.format(ng=2, vals="{1, 2}", rows=3, blocks=2, kernels='{"min"}', muc="FALSE", isf="TRUE"), "neg_merge_float", expect="BlocksAreSingle", workers=1)
    ck.mc_bg("GBReduce", MC.format(ng=2, vals="{1, 2}", rows=3, blocks=2, kernels='{"first"}', muc="FALSE", isf="FALSE"), "neg_merge_int", expect="BlocksAreSingle", workers=1)

    # TLAPS supplement: the scalar merge algebra (homomorphism, identities, associativity) over unbounded integers
    tp = tlc.tlaps_check("GBMergeLemmas", "C04")
    if not tp["ok"]:
        from ..core import Machinery
        raise Machinery(f"tlapm did not prove GBMergeLemmas: {tp}")
    ck.notes["tlaps"] = {"module": "spec/proofs/GBMergeLemmas.tla", "obligations_proved": tp["proved"], "wall_s": tp["wall"],
                         "theorems": "Step(Merge(p,q),v) = Merge(p,Step(q,v)), left/right identity, associativity for max, min, first, sum over unbounded Int"}

    # 2. the implementation, replayed through the specification
    sched.install()
    A, B = build_cases(tier, ck.seed)
    warm = [c for c in A if c["mask"]["k"] == "none" and c["split"] == ("t", 1)][:9 * 40]
    trA = ck.drive(kernels.run_case, A, warm_cases=warm)
    trB = ck.drive(kernels.run_case, B, group=lambda c: kernels.EMB[c['emb']].dtype.str if kernels.EMB[c['emb']].kind not in 'mM' else '<i8')
    ck.exhaustive = True
    ck.notes["exhaustive_part"] = f"A: {len(A)} calls (all inputs up to the stated length); B: {len(B)} sampled configurations"
    rej = ck.validate("Trace_GBReduce", trA + trB, trace_cfg(), "traces", nontrivial=nontrivial,
                      diag_cfg=trace_cfg(diag="TRUE", inv=False))
    dev = {"D5-numba-merge-without-counts": trace_cfg(muc="FALSE", isf="TRUE", inv=False),
           "D5i-numba-merge-without-counts-int": trace_cfg(muc="FALSE", isf="FALSE", inv=False)}
    ck.judge(rej, "Trace_GBReduce", dev)
    ck.assumptions += [
        "embeddings/projections in gbverif/abstract.py (value <-> abstract value) are trusted",
        "plain integer inputs equal to int64-min are outside the driven domain (DESIGN Appendix C)",
        "chunked value layouts are driven only for dtypes pyarrow converts zero-copy (container handling is C12)",
    ]
    return ck.finish()


def replay(path):
    t = json.load(open(path))
    case = dict(op=t["op"], codes=t["codes"], vals=t["vals"], emb=t["emb"], mask=t["mask"],
                split=(t["split"][0], tuple(t["split"][1]) if t["split"][0] == "c" else t["split"][1]))
    sched.install()
    tr = kernels.run_case(case)
    from .. import tlc
    acc, _, _ = tlc.validate("Trace_GBReduce", [tr], "C04_replay", trace_cfg())
    print(json.dumps(tr))
    if 0 in acc:
        print("replay: trace accepted by the specification (property holds on this input)")
        return 0
    print(f"VIOLATION property=C04 replay={path}")
    return 1
