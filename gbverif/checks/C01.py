"""C01 -- group reductions equal the per-group definition."""
import json

from .. import cases as C
from .. import runner, sched
from ..core import CheckRun
from ..domains import Rng, pairs_upto
from ..drivers import api
from ..env import NULL

MC = """SPECIFICATION Spec
CHECK_DEADLOCK FALSE
CONSTANTS
  LabelIds = {labels}
  NKeys = {nkeys}
  Vals = {vals}
  MaxRows = {rows}
  KernelSet = {kernels}
  ObservedByValueCount = {obv}
INVARIANT PartIsDef
INVARIANT LabelsExact
INVARIANT AllLabelsWhenUnobserved
INVARIANT BlowUp2
INVARIANT DictDistinct
INVARIANT NoNullLabel
PROPERTY NullKeyStuttersC
"""
ALLK = '{"size", "count", "sum", "min", "max", "first", "last"}'

TRACE_CFG = """SPECIFICATION TraceSpec
CHECK_DEADLOCK FALSE
CONSTANTS
  LabelIds = {{1}}
  NKeys = 1
  Vals = {{1}}
  MaxRows = 0
  KernelSet = {{"sum"}}
  ObservedByValueCount = {obv}
  Diag = {diag}
  PosMaskAsSet = {pset}
INVARIANT TraceInv
"""


def trace_cfg(obv="FALSE", diag="FALSE", inv=True, pset="FALSE"):
    s = TRACE_CFG.format(obv=obv, diag=diag, pset=pset)
    return s if inv else s.replace("INVARIANT TraceInv\n", "")


def build_cases(tier, seed):
    rng = Rng(f"C01-{seed}")
    nmax = 3 if tier == "quick" else 4
    mbn = C.masks_by_n(max(nmax, 6))
    embs = C.API_EMBS_Q if tier == "quick" else C.API_EMBS
    A, B = [], []
    for keys, vals in pairs_upto(C.KEYS1, C.VALS, nmax):
        n = len(keys)
        for op in C.OPS8:
            A.append(C.base_case(op, keys, vals))
        # masks on the core domain: every bool mask for n <= 2 (thorough: n <= 3), else two drawn
        bm = mbn[n]["bool"]
        chosen = bm if n <= (2 if tier == "quick" else 3) else [rng.pick(bm) for _ in range(2)]
        for m in chosen:
            A.append(C.base_case(rng.pick(C.OPS8), keys, vals, mask=m))
        A.append(C.base_case(rng.pick(C.OPS8), keys, vals, mask=rng.pick(mbn[n]["slice"])))
        A.append(C.base_case(rng.pick(C.OPS8), keys, vals, mask=C.draw_mask(rng, n, mbn, ("pos",), pos_in_range=True)))
        # covering part: key dtype x value dtype x mask kind x op
        for _ in range(2 if tier == "quick" else 3):
            B.append(draw_cover(rng, keys, vals, mbn, embs))
    for _ in range(3000 if tier == "quick" else 40000):
        n = rng.randrange(4, 41) if rng.random() < 0.5 else rng.randrange(4, 9)
        keys = [rng.pick([NULL, 1, 2, 3, 4]) for _ in range(n)]
        vals = [rng.pick(C.VALS) for _ in range(n)]
        B.append(draw_cover(rng, keys, vals, mbn if n <= 6 else None, embs))
    B.sort(key=lambda c: (c["emb"], c["op"], c["mask"]["k"]))
    return A, B


def draw_cover(rng, keys, vals, mbn, embs=C.API_EMBS, strategy=True):
    n = len(keys)
    for _ in range(50):
        op = rng.pick(C.OPS8)
        emb = rng.pick(embs)
        if not C.api_supported(op, emb):
            continue
        break
    two = rng.random() < 0.25
    kenc = rng.pick(C.KENCS)
    k1 = C.adapt_keys(rng, keys, kenc)
    v = C.adapt_vals(rng, vals, emb)
    if mbn is not None:
        mask = C.draw_mask(rng, n, mbn, pos_in_range=True)
    else:
        kind = rng.pick(["none", "bool", "slice"])
        mask = C.NONE if kind == "none" else (
            {"k": "bool", "b": [rng.randrange(2) for _ in range(n)]} if kind == "bool"
            else {"k": "slice", "s": [rng.pick([-997, rng.randrange(-n, n)]), rng.pick([-997, rng.randrange(-n, n)]), rng.pick([-997, 1, 2, -1, 3])]})
    c = C.base_case(op, k1, v, mask=mask, kenc=kenc, emb=emb)
    if two:
        kenc2 = rng.pick(["f64", "str", "i64", "cat"])
        k2 = C.adapt_keys(rng, [rng.pick([NULL, 1, 2]) for _ in range(n)], kenc2)
        c["keys"] = [[a, b] for a, b in zip(k1, k2)]
        c["kenc"] = [kenc, kenc2]
    c["kcont"] = rng.pick(["np", "np", "series"])
    c["mcont"] = rng.pick(["np", "series"])
    # the property holds under every execution strategy: some draws run threaded / on chunk-wise factorized keys
    # (callers that replace the mask / keys afterwards draw the strategy themselves: strategy=False)
    if rng.random() < 0.25:
        c["R"] = rng.pick([1, 2])
    if not strategy:
        return c
    if (not two and n >= 2 and rng.random() < 0.25 and mask["k"] != "pos" and not (mask["k"] == "slice" and mask["s"][2] not in (-997, 1))
            and kenc not in ("cat", "catperm")):
        c["T"] = 2 if n < 6 else rng.pick([2, 4])
    return c


def run(tier):
    ck = CheckRun("C01", tier, rule=(
        "A: every (keys, values) pair over {Null,1,2,3}^n x {Null,1,2,3}^n, n<=3 (quick) / 4 (thorough), float keys and "
        "values, x 8 reductions, unmasked (exhaustive), plus every boolean mask for n<=2 (3) and drawn bool/slice/position "
        "masks; B: seeded covering draws of key dtype (float/int/str/datetime/categorical incl. unused and permuted "
        "categories/bool; 1-2 keys) x value dtype+embedding x mask kind x reduction on the same inputs and on random "
        "inputs of length 4..40.  non-trivial = >=2 groups or a null key/value or a mask; distinct = distinct call."))
    if tier == "quick":
        ck.mc_bg("GBCore", MC.format(labels="{1, 2}", nkeys=1, vals="{1, 2}", rows=4, kernels=ALLK, obv="FALSE"), "core_n4")
    else:
        ck.mc("GBCore", MC.format(labels="{1, 2, 3}", nkeys=1, vals="{1, 2}", rows=5, kernels=ALLK, obv="FALSE"), "core_n5", timeout=7200, heap="24g")
        ck.mc("GBCore", MC.format(labels="{1, 2}", nkeys=2, vals="{1}", rows=4, kernels='{"sum", "min", "first", "size"}', obv="FALSE"), "core_2keys_n4", timeout=7200, heap="24g")
    ck.mc_bg("GBCore", MC.format(labels="{1}", nkeys=1, vals="{1}", rows=2, kernels='{"sum"}', obv="TRUE"), "neg_observed_by_value_count", expect="LabelsExact", workers=1)

    sched.install()
    A, B = build_cases(tier, ck.seed)
    trA = ck.drive(api.run_reduce, A, warm_cases=A[:8 * 30])
    trB = ck.drive(api.run_reduce, B, group=lambda c: api.EMB[c['emb']].dtype.str if api.EMB[c['emb']].kind not in 'mM' else '<i8')
    ck.exhaustive = True
    ck.notes["exhaustive_part"] = f"A: {len(A)} calls; B: {len(B)} drawn configurations"
    rej = ck.validate("Trace_GBCore", trA + trB, trace_cfg(), "traces", nontrivial=C.nontrivial_api,
                      diag_cfg=trace_cfg(diag="TRUE", inv=False))
    ck.judge(rej, "Trace_GBCore", {})
    ck.assumptions += ["projection of pandas results and key/value encoders (gbverif/drivers/api.py, abstract.py) are trusted",
                       "mean of temporal values and integer inputs equal to int64-min are outside the driven domain"]
    return ck.finish()


def replay(path):
    t = json.load(open(path))
    case = {k: t[k] for k in ("op", "keys", "vals", "mask", "tf", "oo", "sort", "emb", "kenc")}
    case.update({k: v for k, v in (t.get("cfg") or {}).items() if v is not None})
    sched.install()
    tr = api.run_reduce(case)
    from .. import tlc
    acc, _, _ = tlc.validate("Trace_GBCore", [tr], "C01_replay", trace_cfg())
    print(json.dumps(tr))
    if 0 in acc:
        print("replay: trace accepted by the specification")
        return 0
    print(f"VIOLATION property=C01 replay={path}")
    return 1
