"""C07 -- transform=True broadcasts exactly the per-group result."""
import json

from .. import cases as C
from .. import sched
from ..abstract import EMB
from ..core import CheckRun
from ..domains import Rng, pairs_upto
from ..drivers import api, shape, stats
from ..env import NULL
from . import C01, C16

OPS = C.OPS8 + ["var", "std"]


def build(rng, tier):
    nmax = 3 if tier == "quick" else 4
    mbn = C.masks_by_n(8)
    embs = C.API_EMBS_Q if tier == "quick" else C.API_EMBS
    red, app = [], []

    def one(keys, vals, exhaustive_op=None):
        n = len(keys)
        op = exhaustive_op or rng.pick(OPS)
        for _ in range(30):
            emb = "f64" if exhaustive_op else rng.pick(embs)
            if op in ("var", "std") and emb not in ("f64", "f32", "i64", "i32"):
                continue
            if C.api_supported(op, emb) and not (NULL in vals and not EMB[emb].has_null_input):
                break
        else:
            emb = "f64"
        kenc = "f64" if exhaustive_op else rng.pick(["f64", "str", "M8", "cat", "catperm"] if NULL in keys else C.KENCS)
        c = C.base_case(op, C.adapt_keys(rng, keys, kenc), C.adapt_vals(rng, vals, emb), kenc=kenc, emb=emb, tf=1,
                        mask=C.NONE if exhaustive_op else C.draw_mask(rng, n, mbn, pos_in_range=True) if n <= 6 else C.NONE)
        if op in ("var", "std"):
            c["ddof"] = rng.randrange(2)
        vc = rng.pick(["np", "series", "series", "pl"])
        if vc == "pl" and emb in ("M8s", "m8s"):
            vc = "series"
        c["vcont"] = vc
        if vc == "series" and n and rng.random() < 0.7:
            idx = list(range(100, 100 + n))
            rng.shuffle(idx)
            c["vindex"] = idx
            if c["mask"]["k"] == "bool":
                c["mcont"] = "np"
        if n >= 2 and rng.random() < 0.35 and not (c["mask"]["k"] == "slice" and c["mask"]["s"][2] not in (-997, 1)):
            c["T"] = rng.pick([2, 4]) if n >= 4 else 2
        return c

    for keys, vals in pairs_upto(C.KEYS1, C.VALS, nmax):
        for op in OPS:
            if len(keys) == 3 and rng.random() < (0.5 if tier == "quick" else 0.0):
                continue
            red.append(one(keys, vals, exhaustive_op=op))
        for _ in range(3):
            red.append(one(keys, vals))
        if keys:
            kenc = rng.pick(["f64", "str", "cat"])
            app.append(dict(fkind=rng.pick(["scalar", "median"]), keys=[[k] for k in C.adapt_keys(rng, keys, kenc)], kenc=[kenc],
                            vals=[v if v != 3 else 2 for v in vals], mask=C16.bool_or_none(rng, len(keys)), tf=1,
                            T=(2 if len(keys) >= 2 and rng.random() < 0.3 and not (kenc == "str" and keys[0] == NULL) else None)))
    for _ in range(2500 if tier == "quick" else 30000):
        n = rng.randrange(4, 24)
        keys = [rng.pick([NULL, 1, 2, 3, 4]) for _ in range(n)]
        vals = [rng.pick(C.VALS) for _ in range(n)]
        red.append(one(keys, vals))
        if rng.random() < 0.3:
            app.append(dict(fkind=rng.pick(["scalar", "median"]), keys=[[k] for k in keys], kenc=["f64"], vals=vals, mask=C16.bool_or_none(rng, n), tf=1,
                            T=(4 if rng.random() < 0.3 else None)))
    return red, app


def multi_column_cases(rng, tier):
    """transform over several value columns (list / dict / frame / 2-D array) whose null patterns differ."""
    out = []
    for _ in range(600 if tier == "quick" else 6000):
        n = rng.randrange(2, 7)
        keys = [[rng.pick([NULL, 1, 2, 3])] for _ in range(n)]
        nv = rng.pick([2, 2, 3])
        vcols = [[rng.pick([NULL, NULL, 1, 2, 3]) for _ in range(n)] for _ in range(nv)]
        vk = rng.pick(["list", "dict", "frame", "2d"])
        vnames = rng.sample(["a", "b", "zz", "v1"], nv) if vk in ("dict", "frame") else [None] * nv
        kenc = rng.pick(["f64", "str", "cat"])
        if kenc == "str" and keys[0][0] == NULL:
            kenc = "f64"
        c = dict(op=rng.pick(["mean", "mean", "sum", "count", "min", "max", "first", "last"]), keys=keys, kenc=[kenc], knames=[None], kkind="list", vcols=vcols, vnames=vnames, vkind=vk,
                 sort=1, oo=1, tf=1, mask=C.NONE if rng.random() < 0.6 else {"k": "bool", "b": [rng.randrange(2) for _ in range(n)]})
        if n >= 2 and rng.random() < 0.25 and kenc != "cat":
            c["T"] = 2
        out.append(c)
    return out


def run(tier):
    ck = CheckRun("C07", tier, rule=(
        "transform=True for size/count/sum/mean/min/max/first/last/var/std on every (keys, values) pair over {Null,1,2,3} up "
        "to length 3 (quick: half of n=3) / 4 (float, unmasked: exhaustive) plus drawn key dtype x value dtype x mask kind x "
        "container (ndarray, Series with a shuffled non-default index, polars) x key representation (flat, chunked at "
        "threshold 2/4), apply(scalar f)/median with transform, 2-3 value columns with different null patterns (list / dict / frame / 2-D), random rows up to 24.  TLC replays each call through GBCore "
        "and requires row r's value = the group's value (neutral/null for null keys and unselected groups), the input's "
        "index and container kind."))
    ck.mc_bg("GBCore", C01.MC.format(labels="{1, 2}", nkeys=1, vals="{1, 2}", rows=3, kernels=C01.ALLK, obv="FALSE"), "core_n3", workers=4)
    sched.install()
    rng = Rng(f"C07-{ck.seed}")
    red, app = build(rng, tier)
    warm = [c for c in red if c["emb"] == "f64" and c["mask"]["k"] == "none" and not c.get("T") and c.get("vcont") == "np"][:30]
    tr = ck.drive(api.run_reduce, red, warm_cases=warm, group=lambda c: EMB[c["emb"]].dtype.str if EMB[c["emb"]].kind not in "mM" else "<i8")
    rej = ck.validate("Trace_GBCore", tr, C01.trace_cfg(), "reductions", nontrivial=C.nontrivial_api, diag_cfg=C01.trace_cfg(diag="TRUE", inv=False))
    ck.judge(rej, "Trace_GBCore", {"C07-chunked-keys-positional-mask-as-set": C01.trace_cfg(pset="TRUE", inv=False)})
    ta = ck.drive(stats.run_apply, app, warm_cases=[a for a in app if not a.get("T")][:10])
    rej = ck.validate("Trace_GBApply", ta, C16.APPLY_CFG, "apply", nontrivial=C.nontrivial_api)
    ck.judge(rej, "Trace_GBApply", {})
    mcc = multi_column_cases(rng, tier)
    lists = ck.drive(shape.run_shape, mcc, warm_cases=[])
    ck.check_harness([x for x in lists if not isinstance(x, list)])
    failed = [l[0] for l in lists if isinstance(l, list) and l[0].get("out") != "ok"]
    for t in failed:
        ck.add_violation(t)
    cols = [t for l in lists if isinstance(l, list) for t in l[1:]]
    rej = ck.validate("Trace_GBCore", cols, C01.trace_cfg(), "multi_column", nontrivial=C.nontrivial_api)
    ck.judge(rej, "Trace_GBCore", {})
    ck.exhaustive = True
    routes = {}
    for t in tr:
        for e in t.get("events", []):
            routes[e] = routes.get(e, 0) + 1
    ck.notes["events_observed"] = dict(sorted(routes.items())[:12])
    ck.assumptions += ["projection of pandas/polars results trusted; index/container observations are made by the driver and required by the trace spec"]
    return ck.finish()


def replay(path):
    t = json.load(open(path))
    if "fkind" in t:
        print("apply-family trace; re-run ./check C07:", json.dumps(t)[:500])
        return 0
    return C01.replay(path)
