"""C03 -- results do not depend on the execution strategy."""
import itertools
import json

from .. import cases as C
from .. import sched
from ..abstract import EMB
from ..core import CheckRun
from ..domains import Rng, all_bool_masks, compositions, pairs_upto, seqs
from ..env import NONE
from ..drivers import api, chunked, strategy
from ..env import NULL
from . import C01, C04

PMC = ("SPECIFICATION {spec}\nCHECK_DEADLOCK FALSE\nCONSTANTS\n  NTasksMax = {n}\n  MaxWorkers = {w}\n  MayRaise = {mr}\n  GatherByCompletion = {dev}\n"
       "INVARIANT TypeOK\nINVARIANT GatheredByIndex\nINVARIANT EachOnce\nINVARIANT ReturnsOnlyIfNoneRaised\nINVARIANT RaisedIsFirstMet\n"
       "INVARIANT WorkerBound\nINVARIANT FifoStart\nINVARIANT ReducedInIndexOrder\n{tail}")
PTRACE = "SPECIFICATION TraceSpec\nCHECK_DEADLOCK FALSE\nCONSTANTS\n  NTasksMax = 8\n  MaxWorkers = 8\n  MayRaise = TRUE\n  GatherByCompletion = FALSE\n"
OPS = C.OPS8


def strategies(rng, n, emb, mask):
    """the execution strategies one logical call is driven through."""
    out = [dict()]                                            # whole keys, one thread, contiguous
    for T, R in ((2, None), (None, 1), (2, 1), (4, 2), (None, 2)):
        if T is not None and n < T:
            continue
        out.append({k: v for k, v in (("T", T), ("R", R)) if v is not None})
    chunkable = emb in ("f64", "f32", "i64", "i64big", "i32") or (EMB[emb].kind in "mM")
    if n >= 2 and mask["k"] in ("none", "bool"):
        comps = [c for p in (2, 3) if p <= n for c in compositions(n, p)]
        for comp in rng.sample(comps, min(len(comps), 3)):
            out.append({"kcont": ["pachunk", list(comp)]})           # pre-chunked arrow keys
            if chunkable:
                comp2 = rng.pick(comps)
                out.append({"kcont": ["pachunk", list(comp)], "vcont": ["pachunk", list(comp2)]})   # misaligned value chunks
                out.append({"vcont": ["pachunk", list(comp2)], "R": 1})
    return out


def product_cases(rng, tier):
    nmax = 3 if tier == "quick" else 4
    mbn = C.masks_by_n(8)
    embs = C.API_EMBS_Q if tier == "quick" else C.API_EMBS
    out = []

    def add(keys, vals):
        n = len(keys)
        base = C01.draw_cover(rng, keys, vals, mbn if n <= 8 else None, embs, strategy=False)
        base["kcont"], base["mcont"] = "np", "np"
        base["keys"] = [[k[0]] for k in base["keys"]]
        base["kenc"] = base["kenc"][:1]
        if base["kenc"][0] in ("cat", "catperm", "bool", "str"):
            base["kenc"] = [rng.pick(["f64", "i64", "M8"])]
            base["keys"] = [[k] for k in C.adapt_keys(rng, keys, base["kenc"][0])]
        has_null_key = any(k[0] == NULL for k in base["keys"])
        m = base["mask"]
        if m["k"] == "slice" and m["s"][2] not in (-997, 1):
            base["mask"] = C.NONE
        if NULL in vals and EMB[base["emb"]].kind in "mM":
            pass
        # labels "identical" under every strategy includes their order: first appearance when sort=False
        base["sort"] = 0 if rng.random() < 0.3 else 1
        for st in strategies(rng, n, base["emb"], base["mask"]):
            c = dict(base)
            c.update(st)
            if isinstance(c.get("kcont"), list) and (has_null_key or base["kenc"][0] == "M8"):
                continue      # arrow float NaN is a value, not a null (C02); arrow timestamps keys: container matter (C12)
            if isinstance(c.get("vcont"), list) and (NULL in c["vals"] and EMB[c["emb"]].kind in "mM"):
                continue
            out.append(c)

    for keys, vals in pairs_upto(C.KEYS1, C.VALS, nmax):
        if len(keys) < 2 or (len(keys) == 3 and rng.random() < (0.85 if tier == "quick" else 0.0)) or (len(keys) == 4 and rng.random() < 0.9):
            continue
        add(keys, vals)
    for _ in range(400 if tier == "quick" else 6000):
        n = rng.randrange(4, 13)
        keys = [rng.pick([NULL, 1, 2, 3]) for _ in range(n)]
        # make "a group absent from a block" likely: sort half of the inputs
        if rng.random() < 0.5:
            keys = sorted(keys, key=lambda k: (k == NULL, k))
        vals = [rng.pick(C.VALS) for _ in range(n)]
        add(keys, vals)
    return out


CHK = """SPECIFICATION {spec}
CHECK_DEADLOCK FALSE
CONSTANTS
 LabelIds = {{1, 2}}
 Vals = {{1, 2}}
 MaxRows = {rows}
 MaxChunks = {chunks}
 KernelSet = {kernels}
 MaskKinds = {masks}
 Reps = {reps}
 SortChoices = {sorts}
 DistinctVals = {distinct}
 AnyOrder = {anyorder}
 NegStartUnclamped = {d1}
 FirstChunkGE = {d2}
 PointerNoOffset = {d3}
 MergeNoCount = {d4}
 PosAsSet = {d5}
 MaxCalls = {calls}
 UnifyWrapsNull = {d6}
 NoNullSlot = {d7}
{tail}"""
CHK_INV = "INVARIANT MergedIsDef\nINVARIANT TransformIsDef\nINVARIANT LogicalCodesIntact\nINVARIANT PointerAligned\nINVARIANT NoOutOfBounds\nINVARIANT PartialIsPieceDef\nINVARIANT PiecesAreSlice\nINVARIANT LabelsAreKeys\n"
ALLK7 = '{"size", "count", "sum", "sumsq", "min", "max", "first", "last"}'


def chk_cfg(rows=2, chunks=3, kernels='{"sum", "first", "last", "size"}', masks='{"none", "slice"}', reps='{"pointers", "global"}', sorts="{TRUE, FALSE}",
            distinct="TRUE", anyorder="FALSE", dev=None, spec="Spec", tail=CHK_INV, calls=1):
    d = {f"d{i}": "FALSE" for i in range(1, 8)}
    if dev:
        d[dev] = "TRUE"
    return CHK.format(spec=spec, rows=rows, chunks=chunks, kernels=kernels, masks=masks, reps=reps, sorts=sorts, distinct=distinct, anyorder=anyorder, tail=tail, calls=calls, **d)


def chk_trace_cfg(internal=True):
    return chk_cfg(spec="TraceSpec", tail=f" CheckInternal = {'TRUE' if internal else 'FALSE'}\n")


def chunked_cases(rng, tier):
    """reductions over chunked keys: every key sequence over {Null, 1, 2} up to 3 rows x every layout of the code array into <= 3 chunks
    (empty chunks included) and the chunk-wise route of contiguous keys (threshold 2) x every boolean mask and every slice with bounds in
    -(n+2)..n+2 (and None) x with / without an earlier .groups call (re-coded representation)."""
    out = []
    ops = ["size", "count", "sum", "min", "max", "first", "last"]
    nmax = 3
    for n in range(1, nmax + 1):
        bounds = [NONE] + list(range(-(n + 2), n + 3))
        masks = [{"k": "none"}] + all_bool_masks(n) + [{"k": "slice", "s": [a, b, NONE]} for a in bounds for b in bounds]
        layouts = [list(c) for k in (1, 2, 3) for c in compositions(n, k, allow_zero=True)] + [None]
        for keys in seqs([NULL, 1, 2], n):
            for lay in layouts:
                for m in masks:
                    if tier == "quick" and n == 3 and m["k"] == "slice" and rng.random() < 0.5:
                        continue
                    for op in (ops if tier != "quick" else [rng.pick(ops)]):
                        emb = rng.pick(["f64", "f64", "i64", "u8"]) if op not in ("size",) else "f64"
                        vals = [rng.pick([NULL, 1, 2, 3]) if emb == "f64" else rng.pick([1, 2, 3]) for _ in range(n)]
                        kenc = "f64" if (NULL in keys or rng.random() < 0.5) else "i64"
                        if lay is not None and NULL in keys:
                            continue       # (an arrow float NaN is a value, not a null: C02 / C12)
                        out.append(dict(op=op, keys=list(keys), vals=vals, emb=emb, kenc=kenc, klens=lay, T=(2 if lay is None else None),
                                        mask=m, sort=rng.pick([0, 1]), pre=rng.pick([[], [], ["groups"]]), tf=int(rng.random() < 0.3)))
    for _ in range(1500 if tier == "quick" else 20000):
        n = rng.randrange(4, 10)
        keys = [rng.pick([1, 2, 3]) for _ in range(n)]
        k = rng.randrange(1, 5)
        cuts = sorted(rng.randrange(0, n + 1) for _ in range(k - 1))
        lay = [b - a for a, b in zip([0] + cuts, cuts + [n])]
        mk = rng.random()
        if mk < 0.2:
            m = {"k": "none"}
        elif mk < 0.5:
            m = {"k": "bool", "b": [rng.randrange(2) for _ in range(n)]}
        elif mk < 0.9:
            m = {"k": "slice", "s": [rng.pick([NONE] + list(range(-n - 2, n + 3))), rng.pick([NONE] + list(range(-n - 2, n + 3))), rng.pick([NONE, 1])]}
        else:
            m = {"k": "pos", "p": [rng.randrange(-n, n) for _ in range(rng.randrange(0, n + 2))]}       # repeats, any order, from the end
        op = rng.pick(ops)
        emb = rng.pick(["f64", "i64", "u8", "i32"]) if op != "size" else "f64"
        vals = [rng.pick([NULL, 1, 2, 3]) if emb == "f64" else rng.pick([1, 2, 3]) for _ in range(n)]
        out.append(dict(op=op, keys=keys, vals=vals, emb=emb, kenc=rng.pick(["f64", "i64"]), klens=lay, T=None, mask=m, sort=rng.pick([0, 1]),
                        pre=rng.pick([[], ["groups"], ["size"]]), tf=int(rng.random() < 0.3)))
    # a second value column on a quarter of the calls: n_values x pieces tasks, results sliced back per column
    for c in out:
        if c["op"] != "size" and rng.random() < 0.25:
            c["vals2"] = [rng.pick([NULL, 1, 2, 3]) if c["emb"] == "f64" else rng.pick([1, 2, 3]) for _ in c["vals"]]
    return out


def run(tier):
    ck = CheckRun("C03", tier, rule=(
        "one logical call (input up to length 3 (4) exhaustively sampled, random/sorted inputs up to 12 rows where a group is "
        "absent from a block; drawn reduction x dtype x mask) driven through every strategy: thresholds scaled to 2/4 rows "
        "(chunk-wise, monotone, partially monotone key routes), 1..4 threads (rows-per-thread 1/2), keys and values as arrow "
        "ChunkedArrays at drawn boundaries incl. misaligned key/value chunks -- each run validated by TLC against the same "
        "GBCore machine, so all strategies agree; every completion order of 2..4 pool tasks (50 seeded orders for 5..8) forced "
        "in the real ThreadPoolExecutor and validated against GBParallel; real threaded / chunked GroupBy calls under forced "
        "orders; scaled replays at the real 1,000,000-row switch-over (999,999 / 1,000,000 / 1,000,002 / 2M / 3M rows)."))
    ck.mc_bg("GBParallel", PMC.format(spec="Spec", n=4 if tier == "quick" else 5, w=3 if tier == "quick" else 4, mr="TRUE", dev="FALSE", tail=""), "pool_all_orders", workers=4)
    ck.mc_bg("GBParallel", PMC.format(spec="FairSpec", n=3, w=2, mr="TRUE", dev="FALSE", tail="PROPERTY Terminates\n"), "pool_terminates", workers=1)
    ck.mc_bg("GBParallel", PMC.format(spec="Spec", n=3, w=3, mr="FALSE", dev="TRUE", tail=""), "neg_gather_by_completion", expect="GatheredByIndex", workers=1)
    ck.mc_bg("GBReduce", C04.MC.format(ng=2, vals="{1, 2}", rows=4, blocks=4, kernels=C04.ALLK, muc="TRUE", isf="TRUE"), "blocks_n4", workers=4)
    ck.mc_bg("GBReduce", C04.MC.format(ng=2, vals="{1, 2}", rows=3, blocks=2, kernels='{"min"}', muc="FALSE", isf="TRUE"), "neg_merge_without_counts", expect="BlocksAreSingle", workers=1)
    ck.mc_bg("GBCore", C01.MC.format(labels="{1, 2}", nkeys=1, vals="{1, 2}", rows=3, kernels=C01.ALLK, obv="FALSE"), "core_blowup_law", workers=4)
    # the chunked-key pipeline (GBChunked): mask resolution into pieces, per-piece partials, pointer-table merge
    ck.mc_bg("GBChunked", chk_cfg(rows=2 if tier == "quick" else 3), "chunked_slices", workers=4)
    ck.mc_bg("GBChunked", chk_cfg(rows=2 if tier == "quick" else 3, kernels=ALLK7, masks='{"none", "bool"}', distinct="FALSE", anyorder="TRUE",
                                  chunks=3 if tier == "quick" else 2), "chunked_values_any_order", workers=4)
    ck.mc_bg("GBChunked", chk_cfg(rows=2 if tier == "quick" else 3, chunks=2, kernels='{"sum", "first", "last", "count"}', masks='{"pos"}', distinct="FALSE"), "chunked_positions", workers=2)
    ck.mc_bg("GBChunked", chk_cfg(dev="d1"), "neg_chunked_neg_start_unclamped", expect="PointerAligned", workers=1)
    ck.mc_bg("GBChunked", chk_cfg(dev="d2"), "neg_chunked_first_chunk_ge", expect="PointerAligned", workers=1)
    ck.mc_bg("GBChunked", chk_cfg(dev="d3"), "neg_chunked_pointer_no_offset", expect="PointerAligned", workers=1)
    ck.mc_bg("GBChunked", chk_cfg(dev="d4", kernels='{"min", "first"}', masks='{"none"}', distinct="FALSE", tail="INVARIANT MergedIsDef\n"),
             "neg_chunked_merge_without_count", expect="MergedIsDef", workers=1)
    ck.mc_bg("GBChunked", chk_cfg(dev="d5", masks='{"pos"}', tail="INVARIANT MergedIsDef\n"), "neg_chunked_positions_as_set", expect="MergedIsDef", workers=1)
    # the object reused: a second call after _unify_group_key_chunks(keep_chunked = TRUE / FALSE) (C13 with data)
    ck.mc_bg("GBChunked", chk_cfg(rows=2 if tier == "quick" else 3, chunks=2, kernels='{"sum", "first"}', masks='{"none", "bool"}', reps='{"pointers"}', sorts="{TRUE}",
                                  distinct="FALSE", calls=2), "chunked_two_calls_with_unify", workers=4)
    ck.mc_bg("GBChunked", chk_cfg(rows=2, chunks=2, kernels='{"sum"}', masks='{"none"}', reps='{"pointers"}', sorts="{TRUE}", distinct="FALSE", calls=2, dev="d6",
                                  tail="INVARIANT LogicalCodesIntact\n"), "neg_chunked_unify_wraps_null", expect="LogicalCodesIntact", workers=1)
    ck.mc_bg("GBChunked", chk_cfg(rows=2, chunks=2, kernels='{"sum", "max"}', masks='{"none"}', reps='{"pointers"}', sorts="{TRUE}", distinct="FALSE", dev="d7",
                                  tail="INVARIANT TransformIsDef\n"), "neg_chunked_no_null_slot", expect="TransformIsDef", workers=1)
    # TLAPS supplement: gather-by-index for ANY number of tasks and any completion order (inductive invariant, 30 obligations)
    from .. import tlc as _tlc0
    tp = _tlc0.tlaps_check("GBGatherProof", "C03")
    if not tp["ok"]:
        from ..core import Machinery
        raise Machinery(f"tlapm did not prove GBGatherProof: {tp}")
    ck.notes["tlaps"] = {"module": "spec/proofs/GBGatherProof.tla", "obligations_proved": tp["proved"], "wall_s": tp["wall"],
                         "theorem": "Spec => []GatheredByIndex for an unbounded number of tasks (Init => Inv, Inv /\\ [Next]_vars => Inv', Inv => GatheredByIndex)"}
    rng = Rng(f"C03-{ck.seed}")
    sched.install()
    # (d) reductions over chunked keys, with the per-piece partials of hook H6
    cc = chunked_cases(rng, tier)
    tcz = [t for r in ck.drive(chunked.run_chunked, cc, group=lambda c: c["emb"]) for t in (r if isinstance(r, list) else [r])]
    ck.notes["chunked_pipeline"] = {"calls": len(tcz), "with_internal_events": sum(t.get("internal", 0) for t in tcz),
                                    "chunked_objects": sum(t.get("chunked", 0) for t in tcz), "two_column_traces": sum(1 for t in tcz if t.get("column")),
                                    "rep_pointers": sum(1 for t in tcz if t.get("rep") == "pointers"), "rep_global_chunked": sum(1 for t in tcz if t.get("rep") == "global" and t.get("chunked")),
                                    "empty_leading_chunk_with_negative_start": sum(1 for t in tcz if t["klens"] and t["klens"][0] == 0 and t["mask"]["k"] == "slice" and t["mask"]["s"][0] not in (NONE,) and t["mask"]["s"][0] < -len(t["keys"]))}
    # (d2) specification -> code: every terminal state TLC reaches in a small GBChunked configuration (the call and what the machine
    # merged per label / broadcast per row) is replayed into a real grouping, which must return the state's values
    from .. import tlc as _tlc2
    dcfg = chk_cfg(rows=2 if tier == "quick" else 3, chunks=2, kernels='{"sum", "last"}', masks='{"none", "bool", "slice"}', sorts="{TRUE}", distinct="FALSE", tail="")
    st_all = _tlc2.dump_states("GBChunked", dcfg, "C03_chunked", timeout=1800)
    seen, rcases = set(), []
    for st in st_all:
        if st.get("pc") != '"done"':
            continue
        keys = _tlc2.parse_tla(st["keys"])
        if NULL in keys:
            continue           # (arrow keys: a float NaN is a value; null keys are driven through the flat-threshold route in (d))
        tf = st["tout"] != "<<>>"
        comb = _tlc2.parse_tla(st["combined"])
        kern = _tlc2.parse_tla(st["kernel"])
        expect = _tlc2.parse_tla(st["tout"]) if tf else [(c["c"] if kern in ("size", "count") else c["a"]) for c in comb]
        case = dict(kernel=kern, keys=keys, vals=_tlc2.parse_tla(st["vals"]), klens=_tlc2.parse_tla(st["klens"]), rep=_tlc2.parse_tla(st["rep"]),
                    mask=_tlc2.parse_tla(st["mask"]), labels=_tlc2.parse_tla(st["labels"]), expect=expect, tf=int(tf))
        k = json.dumps(case, sort_keys=True)
        if k not in seen:
            seen.add(k)
            rcases.append(case)
    if tier == "quick" and len(rcases) > 6000:
        rcases = rng.sample(rcases, 6000)
    rres = ck.drive(chunked.replay_state, rcases, group=lambda c: c["kernel"])
    badr = [t for t in rres if not t.get("ok")]
    ck.notes["chunked_spec_states_replayed"] = {"done_states": sum(1 for st in st_all if st.get("pc") == '"done"'), "replayed": len(rres), "transform_states": sum(c["tf"] for c in rcases), "mismatches": len(badr)}
    ck.evaluations += len(rres)
    ck.traces_ok += len(rres) - len(badr)
    for b in badr[:50]:
        ck.add_violation(dict(b, what="the real grouping did not return what the GBChunked machine holds in this terminal state"))
    rej = ck.validate("Trace_GBChunked", tcz, chk_trace_cfg(True), "chunked", nontrivial=lambda t: len(t["klens"]) > 1,
                      key=lambda t: json.dumps([t["kernel"], t["keys"], t["vals"], t["klens"], t["mask"], t["rep"], t["cfg"].get("tf"), t.get("column")]))
    if rej:
        # what the public call returned decides; a partial that differs while the result is right is reported, not judged
        rej2 = ck.validate("Trace_GBChunked", rej, chk_trace_cfg(False), "chunked_api_only")
        ck.evaluations -= len(rej)
        ck.notes["chunked_pipeline"]["internal_divergence_with_correct_result"] = len(rej) - len(rej2)
        ck.judge(rej2, None, {})
    # (a) strategy product
    pc = product_cases(rng, tier)
    warm = [c for c in pc if not c.get("T") and not c.get("R") and c["emb"] == "f64" and c.get("kcont") == "np" and not isinstance(c.get("vcont"), list)][:30]
    tp = ck.drive(api.run_reduce, pc, warm_cases=warm, group=lambda c: EMB[c["emb"]].dtype.str if EMB[c["emb"]].kind not in "mM" else "<i8")
    ev = {}
    for t in tp:
        for e in t.get("events", []):
            ev[e] = ev.get(e, 0) + 1
    ck.notes["route_and_dispatch_events"] = dict(sorted(ev.items()))
    rej = ck.validate("Trace_GBCore", tp, C01.trace_cfg(), "strategies", nontrivial=lambda t: any(v is not None for v in t["cfg"].values()),
                      diag_cfg=C01.trace_cfg(diag="TRUE", inv=False))
    ck.judge(rej, "Trace_GBCore", {})
    # (b) the pool: forced completion orders
    pool = []
    for n in (2, 3, 4):
        pool += [dict(n=n, order=list(p)) for p in itertools.permutations(range(n))]
    for n in (5, 6, 7, 8):
        for _ in range(50 if tier == "quick" else 300):
            p = list(range(n))
            rng.shuffle(p)
            pool.append(dict(n=n, order=p))
    # tasks that raise (every subset for 2..3 tasks under every order; drawn for more), the single-task inline path,
    # and parallel_reduce (left fold of the gathered list, observed through list concatenation)
    pool += [dict(n=1, order=[0]), dict(n=1, order=[0], raises=[0]), dict(n=1, order=[0], reduce=1)]
    for n in (2, 3):
        for p in itertools.permutations(range(n)):
            for k in range(1, n + 1):
                for rs in itertools.combinations(range(n), k):
                    pool.append(dict(n=n, order=list(p), raises=list(rs)))
            pool.append(dict(n=n, order=list(p), reduce=1))
    for p in itertools.permutations(range(4)):
        pool.append(dict(n=4, order=list(p), reduce=1))
        pool.append(dict(n=4, order=list(p), raises=sorted(rng.sample(range(4), rng.randrange(1, 3)))))
    for _ in range(60 if tier == "quick" else 600):
        n = rng.randrange(5, 9)
        p = list(range(n))
        rng.shuffle(p)
        pool.append(dict(n=n, order=p, raises=sorted(rng.sample(range(n), rng.randrange(1, 4)))) if rng.random() < 0.5 else dict(n=n, order=p, reduce=1))
    tpool = ck.drive(strategy.run_pool, pool, procs=2)     # in worker processes (each has its own scheduler pool); the parent stays thread-free
    ck.notes["schedules_forced"] = sum(t["forced"] for t in tpool)
    ck.notes["schedules_observed_as_forced"] = sum(int(t["order"] == t["want"]) for t in tpool)
    ck.notes["pool_outcomes"] = {k: sum(1 for t in tpool if t["outcome"] == k) for k in ("returned", "raised", "crash")}
    ck.notes["pool_reduce_calls"] = sum(t.get("reduce", 0) for t in tpool)
    rej = ck.validate("Trace_GBParallel", tpool, PTRACE, "pool", nontrivial=lambda t: t["order"] != sorted(t["order"]) or bool(t["raises"]),
                      key=lambda t: json.dumps([t["want"], t["raises"], t.get("reduce")]))
    ck.judge(rej, None, {})
    # (b2) specification -> code: every TERMINAL state TLC reaches in GBParallel (a set of raising tasks, the order in which the
    # loop met the tasks, the outcome, the gathered results) is replayed into the real pool and the real outcome is compared
    # with the state's, not merely accepted
    from .. import tlc as _tlc
    term = [st for st in _tlc.dump_states("GBParallel", PMC.format(spec="Spec", n=3 if tier == "quick" else 4, w=2, mr="TRUE", dev="FALSE", tail=""), "C03_pool")
            if st.get("pc") in ('"returned"', '"raised"') and st.get("reduced") == "<<>>"]
    seen, replay = set(), []
    for st in term:
        n = int(st["ntasks"])
        order = [x - 1 for x in _tlc.tla_seq_ints(st["order"])]
        raises = [x - 1 for x in _tlc.tla_seq_ints(st["raises"])]
        key = (n, tuple(order), tuple(raises))
        if key in seen:
            continue
        seen.add(key)
        rest = [i for i in range(n) if i not in order]
        replay.append(dict(n=n, order=order + rest, raises=raises, _spec=dict(pc=st["pc"].strip('"'), exc=int(st["exc"]) - 1 if st["exc"] != "-1" else -1,
                                                                             results=_tlc.tla_seq_ints(st["results"]), order=order)))
    treplay = ck.drive(strategy.run_pool, replay, procs=2)
    bad = []
    for c, t in zip(replay, treplay):
        sp = c["_spec"]
        ok = t["outcome"] == sp["pc"] and (sp["pc"] != "returned" or t["results"] == sp["results"]) and (sp["pc"] != "raised" or (t["exc"] == sp["exc"] and t["order"] == sp["order"]))
        if not ok and (t["forced"] or c["n"] == 1):
            bad.append(dict(t, spec_state=sp, what="the real pool did not end in the state the specification reaches for this behaviour"))
    ck.notes["pool_spec_behaviours_replayed"] = {"terminal_states": len(term), "distinct_behaviours": len(replay), "forced": sum(t["forced"] for t in treplay), "mismatches": len(bad)}
    ck.evaluations += len(treplay)
    ck.traces_ok += len(treplay) - len(bad)
    for b in bad:
        ck.add_violation(b)
    forced = []
    for _ in range(300 if tier == "quick" else 3000):
        n = rng.randrange(3, 9)
        keys = sorted([rng.pick([1, 2, 3]) for _ in range(n)]) if rng.random() < 0.5 else [rng.pick([NULL, 1, 2, 3]) for _ in range(n)]
        emb = rng.pick(["f64", "i64big", "M8ns"])
        c = C.base_case(rng.pick([o for o in OPS if C.api_supported(o, emb)]), keys, [rng.pick(C.VALS) for _ in range(n)], emb=emb)
        c["vals"] = C.adapt_vals(rng, c["vals"], c["emb"])
        c.update(rng.pick([{"R": 1}, {"R": 2}, {"T": 2}, {"T": 4, "R": 2}, {"T": 2, "R": 1}]))
        k = 4
        order = list(range(k))
        rng.shuffle(order)
        c["order"] = order
        forced.append(c)
    tf = ck.drive(strategy.run_api_forced, forced, procs=8)
    ck.notes["api_calls_with_forced_pool_order"] = sum(1 for t in tf if t.get("schedules"))
    rej = ck.validate("Trace_GBCore", tf, C01.trace_cfg(), "forced_api", nontrivial=lambda t: bool(t.get("schedules")))
    ck.judge(rej, "Trace_GBCore", {})
    # (c) scaled replays with the real thresholds
    scaled = []
    plans = [(3, 333_333), (4, 250_000), (6, 166_667), (4, 500_000), (3, 1_000_000)] if tier == "quick" else \
            [(3, 333_333), (9, 111_111), (4, 250_000), (8, 125_000), (6, 166_667), (4, 500_000), (8, 250_000), (3, 1_000_000), (6, 500_000), (5, 200_000)]
    per = 3 if tier == "quick" else 15
    for n, m in plans:
        for _ in range(per):
            keys = [rng.pick([NULL, 1, 2, 3]) for _ in range(n)]
            if rng.random() < 0.6:
                keys = sorted(keys, key=lambda k: (k == NULL, k))       # a group absent from whole blocks
            emb = rng.pick(["f64", "i64", "M8ns"])
            vals = C.adapt_vals(rng, [rng.pick(C.VALS) for _ in range(n)], emb)
            # (a sum of 10^5..10^6 timestamps of about 2^55 ns does not fit 64 bits: not a meaningful input)
            c = C.base_case(rng.pick([o for o in OPS if C.api_supported(o, emb) and not (o == "sum" and emb == "M8ns")]), keys, vals, emb=emb)
            c["mult"] = m
            if NULL not in keys and rng.random() < 0.3:
                c["kcont"], c["nchunks"] = "pachunk", rng.pick([2, 3])
                c["kenc"] = ["i64"]
            scaled.append(c)
    ts = ck.drive(strategy.run_scaled, scaled, procs=6)
    ck.notes["scaled_replays"] = {"runs": len(ts), "rows": sorted({t["cfg"]["rows"] for t in ts}), "chunked_keys_runs": sum(t.get("chunked", 0) for t in ts),
                                  "threaded_runs": sum(1 for t in ts if any(e.startswith("Dispatch:") and e[-1] in "234" for e in t.get("events", [])))}
    rej = ck.validate("Trace_GBCore", ts, C01.trace_cfg(), "scaled", nontrivial=lambda t: True, key=lambda t: json.dumps([t["keys"], t["vals"], t["op"], t["mult"], t["cfg"]]))
    ck.judge(rej, "Trace_GBCore", {})
    ck.exhaustive = True
    ck.assumptions += ["threshold and rows-per-thread are scaled down through core.THRESHOLD_FOR_CHUNKED_FACTORIZE and hook H3; the scaled replays use the real constants",
                       "completion orders are forced by the harness-side SchedExecutor (a subclass of the real ThreadPoolExecutor); if the library stops using that executor, schedules_forced drops to 0 (reported, not a violation)"]
    return ck.finish()


def replay(path):
    t = json.load(open(path))
    if "want" in t:
        tr = strategy.run_pool(dict(n=t["n"], order=t["want"], raises=t.get("raises"), reduce=t.get("reduce")))
        from .. import tlc
        acc, _, _ = tlc.validate("Trace_GBParallel", [tr], "C03_replay", PTRACE)
        print(json.dumps(tr))
        if 0 in acc:
            print("replay: trace accepted by the specification")
            return 0
        print(f"VIOLATION property=C03 replay={path}")
        return 1
    return C01.replay(path)
