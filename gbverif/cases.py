"""Shared case builders for API-level checks."""
from .abstract import EMB
from .domains import Rng, all_bool_masks, all_pos_masks, all_slices, pairs_upto
from .env import NULL

KEYS1 = [NULL, 1, 2, 3]
VALS = [NULL, 1, 2, 3]
OPS8 = ["size", "count", "sum", "mean", "min", "max", "first", "last"]
API_EMBS = ["f64", "f32", "i64", "i64big", "u64big", "i32", "i8", "u8", "u64", "bool", "M8ns", "M8ns0", "m8ns", "M8s", "m8s", "i8lo", "i16lo", "i32lo"]
API_EMBS_Q = ["f64", "f32", "i64big", "u64big", "i32", "u8", "bool", "M8ns", "m8ns", "M8s", "i8lo", "i32lo"]
KENCS = ["f64", "i64", "str", "M8", "cat", "catperm", "bool"]
NONE = {"k": "none"}


def masks_by_n(nmax, poslen=3):
    return {n: {"bool": all_bool_masks(n), "slice": all_slices(n), "pos": all_pos_masks(n, min(poslen, 3) if n <= 3 else 2)}
            for n in range(0, nmax + 1)}


def api_supported(op, emb):
    e = EMB[emb]
    if op == "mean" and (e.base != 0 or e.kind in "mM"):
        return False
    if emb.endswith("lo") and op in ("sum", "mean", "cumsum"):
        return False          # (bottom-of-range embeddings: selection-type operations and counts only)
    return True


def adapt_keys(rng, ids, kenc):
    """abstract ids for one key component, adapted to what the encoder can carry."""
    if kenc == "bool":
        return [(0 if i == NULL else i % 2) for i in ids]
    if kenc in ("i64", "i32"):
        return [(rng.pick([1, 2, 3]) if i == NULL else i) for i in ids]
    return list(ids)


def adapt_vals(rng, vals, emb):
    e = EMB[emb]
    v = list(vals)
    if not e.has_null_input:
        v = [(rng.pick([1, 2, 3]) if x == NULL else x) for x in v]
    if emb == "bool":
        v = [x % 2 for x in v]
    return v


def base_case(op, keys1, vals, mask=NONE, kenc="f64", emb="f64", tf=0, oo=1, sort=1, **extra):
    c = dict(op=op, keys=[[k] for k in keys1], kenc=[kenc], vals=list(vals), emb=emb, mask=mask, tf=tf, oo=oo, sort=sort)
    c.update(extra)
    return c


def draw_mask(rng, n, mbn, kinds=("none", "bool", "slice", "pos"), pos_in_range=False):
    k = rng.pick(list(kinds))
    if k == "none":
        return NONE
    m = rng.pick(mbn[n][k])
    if k == "pos" and pos_in_range:
        m = {"k": "pos", "p": [p for p in m["p"] if -n <= p < n]}
    return m


def nontrivial_api(t):
    ks = [tuple(k) for k in t["keys"] if NULL not in k]
    return (len(set(ks)) >= 2 or any(NULL in k for k in t["keys"]) or NULL in t.get("vals", [])
            or t["mask"]["k"] != "none")
