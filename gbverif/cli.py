import argparse
import importlib
import os
import sys
import traceback


def main():
    ap = argparse.ArgumentParser()
    ap.add_argument("prop")
    ap.add_argument("--tier", default=os.environ.get("VERIF_TIER", "quick"), choices=["quick", "thorough"])
    ap.add_argument("--replay", default=None)
    a = ap.parse_args()
    from . import env
    env.setup()
    from .core import Machinery
    from .runner import RunnerError
    from .tlc import TLCError
    try:
        if a.prop == "selftest":
            from . import selftest
            return selftest.main(a.tier)
        mod = importlib.import_module(f"gbverif.checks.{a.prop}")
        if a.replay:
            from .core import generic_replay
            rc = generic_replay(a.prop, a.replay)      # files written with provenance (call + trace specification)
            return mod.replay(a.replay) if rc is None else rc
        return mod.run(a.tier)
    except (Machinery, TLCError, RunnerError) as ex:
        print(f"MACHINERY-FAILURE {a.prop}: {ex}", file=sys.stderr)
        return 2
    except Exception:
        traceback.print_exc()
        print(f"MACHINERY-FAILURE {a.prop}: unexpected harness exception", file=sys.stderr)
        return 2


if __name__ == "__main__":
    sys.exit(main())
