"""Common flow of a check: TLC on the spec, drive the code, validate traces, judge, write evidence."""
import hashlib
import json
import sys
import time
from pathlib import Path

from . import env, tlc
from .known import KNOWN, load_known


class Machinery(RuntimeError):
    """The check could not do its job (exit 2; never a VIOLATION)."""


def generic_replay(pid, path):
    """re-execute the call that produced a rejected trace on the current tree and validate the new trace with the same
    trace specification and configuration; None if the file carries no provenance."""
    import importlib
    t = json.load(open(path))
    if not all(k in t for k in ("_case", "_fn", "_tmod", "_cfg")):
        return None
    from . import sched
    sched.install()
    mod, fn = t["_fn"].split(":")
    f = getattr(importlib.import_module(mod), fn)
    case = t["_case"]
    for k in ("kcont", "vcont"):            # (tuples became lists in JSON)
        if isinstance(case.get(k), list):
            case[k] = tuple(case[k])
    out = f(case)
    tr = out[t["_sub"]] if isinstance(out, list) and "_sub" in t and t["_sub"] < len(out) else out
    if isinstance(tr, list):
        tr = tr[0]
    for k in ("family", "pair", "kind"):    # labels added by the check after the call
        if k in t and k not in tr:
            tr[k] = t[k]
    print(json.dumps({k: v for k, v in tr.items() if not str(k).startswith("_")}, default=str)[:3000])
    acc, _, _ = tlc.validate(t["_tmod"], [tr], f"{pid}_replay", t["_cfg"])
    if 0 in acc:
        print("replay: trace accepted by the specification")
        return 0
    print(f"VIOLATION property={pid} replay={path}")
    return 1


class CheckRun:
    def __init__(self, pid: str, tier: str, rule: str, design_ref: str = ""):
        self.pid, self.tier, self.rule = pid, tier, rule
        self.t0 = time.time()
        self.seed = env.seed()
        self.tree = env.setup()
        self.states = 0
        self.transitions = 0
        self.mc_runs = []
        self.traces_ok = 0
        self.evaluations = 0
        self.distinct = set()
        self.samples = []
        self.violations = []       # (trace, why)
        self.known_hit = {}        # finding id -> count
        self.notes = {}
        self.assumptions = []
        self.exhaustive = False
        self.known = load_known(pid)
        self.timing = []
        self.pending_mc = []

    def drive(self, fn, cases, warm_cases=(), **kw):
        """run the cases against the real code (timed)."""
        from . import runner
        t = time.time()
        out = runner.run_cases(fn, cases, warm_cases=warm_cases, **kw)
        self.timing.append(("drive", len(cases), round(time.time() - t, 1)))
        # provenance for --replay: the call that produced each trace (never shown to TLC)
        fname = f"{fn.__module__}:{fn.__name__}"
        for c, r in zip(cases, out):
            for j, x in enumerate(r if isinstance(r, list) else [r]):
                if isinstance(x, dict):
                    x["_case"], x["_fn"] = c, fname
                    if isinstance(r, list):
                        x["_sub"] = j
        return out

    # ---------------------------------------------------------------- TLC on the spec
    def mc_bg(self, module, cfg_text, name, expect=None, workers=6, timeout=3600, heap="12g"):
        """start TLC in the background (a child process, no thread); judged in join_mc()/finish()."""
        h = tlc.model_check_start(module, cfg_text, f"{self.pid}_{name}", workers=workers, heap=heap)
        self.pending_mc.append((h, name, expect, timeout))

    def join_mc(self):
        pend, self.pending_mc = self.pending_mc, []
        for h, name, expect, timeout in pend:
            self._judge_mc(tlc.model_check_finish(h, timeout), name, expect)

    def mc(self, module, cfg_text, name, expect=None, workers=16, timeout=3600, heap="12g"):
        """expect=None: the model must satisfy everything in the cfg.
        expect='InvName': negative config -- TLC must report exactly that violation."""
        res = tlc.model_check(module, cfg_text, f"{self.pid}_{name}", workers=workers, timeout=timeout, heap=heap)
        return self._judge_mc(res, name, expect)

    def _judge_mc(self, res, name, expect):
        module = res["module"]
        rec = {"name": name, "module": module, "distinct": res["distinct"], "generated": res["generated"],
               "wall_s": round(res["wall"], 1), "expect": expect, "violated": res["violated"]}
        self.mc_runs.append(rec)
        self.timing.append(("tlc:" + name, res["distinct"], round(res["wall"], 1)))
        if res.get("error"):
            raise Machinery(f"TLC error in {name}: {res['error']}  ({res['out_path']})")
        if expect is None:
            if res["violated"] is not None or not res["completed"]:
                raise Machinery(f"the specification itself violates {res['violated']} in {name} "
                                f"({res['out_path']}): spec bug, not a finding about the code")
            self.states += res["distinct"]
            self.transitions += res["generated"]
        else:
            if res["violated"] != expect:
                raise Machinery(f"negative config {name}: expected TLC to report {expect}, got "
                                f"{res['violated']} (vacuity guard; {res['out_path']})")
        return res

    # ---------------------------------------------------------------- traces
    def check_harness(self, traces):
        bad = [t for t in traces if t is None or "harness_error" in t]
        if bad:
            b = bad[0]
            raise Machinery(f"{len(bad)} harness errors, first: {b and b.get('harness_error')}\n{b and b.get('tb')}")

    def validate(self, trace_module, traces, cfg_text, name, key=None, nontrivial=None, diag_cfg=None):
        """Validate; returns list of rejected traces (each gets 'expected' if diag_cfg is given)."""
        self.check_harness(traces)
        aborted = [t for t in traces if isinstance(t, dict) and t.get("abort")]
        if aborted:
            # the interpreter died (signal) while the library executed this case: no result, no clean exception
            for t in aborted[:20]:
                self.violations.append({"abort": True, "what": "the Python process was killed by a signal while executing this call", "case": t.get("case")})
            traces = [t for t in traces if not (isinstance(t, dict) and (t.get("abort") or t.get("skipped_after_aborts")))]
        self.evaluations += len(traces)
        acc, _, st = tlc.validate(trace_module, traces, f"{self.pid}_{name}", cfg_text)
        self.timing.append(("validate:" + name, len(traces), round(st["wall"], 1)))
        self.states += st["distinct"]
        self.transitions += st["generated"]
        self.traces_ok += len(acc)
        for i, t in enumerate(traces):
            if nontrivial is None or nontrivial(t):
                k = key(t) if key else json.dumps({x: t[x] for x in t if x not in ("res", "reshi") and not x.startswith("_")}, sort_keys=True, default=str)
                self.distinct.add(hashlib.md5(k.encode()).digest()[:8])
        if len(self.samples) < 3 and traces:
            for j in (0, len(traces) // 2, len(traces) - 1):
                if len(self.samples) < 3:
                    self.samples.append({x: v for x, v in traces[j].items() if not str(x).startswith("_")} if isinstance(traces[j], dict) else traces[j])
        rej_idx = [i for i in range(len(traces)) if i not in acc]
        rej = [traces[i] for i in rej_idx]
        for t in rej:
            if isinstance(t, dict):
                t["_tmod"], t["_cfg"] = trace_module, cfg_text
        if rej and diag_cfg:
            sub = rej[:2000]
            _, info, _ = tlc.validate(trace_module, sub, f"{self.pid}_{name}_diag", diag_cfg)
            for j, t in enumerate(sub):
                t["expected"] = info.get(j)
        return rej

    def judge(self, rejected, trace_module=None, dev_cfgs=None, name="dev"):
        """Every rejected trace is a known finding (predicate matches AND TLC accepts it with exactly
        that finding's deviation switch on) or a VIOLATION."""
        remaining = list(rejected)
        for fid, ent in self.known.items():
            if not remaining or ent["status"] != "open":
                continue
            pred = KNOWN[fid]["pred"]
            cand = [t for t in remaining if pred(t)]
            if not cand:
                continue
            dev = (dev_cfgs or {}).get(fid)
            if dev is not None and trace_module is not None:
                acc, _, _ = tlc.validate(trace_module, cand, f"{self.pid}_{name}_{fid}", dev)
                hit = [t for i, t in enumerate(cand) if i in acc]
            else:
                hit = cand
            if hit:
                self.known_hit[fid] = self.known_hit.get(fid, 0) + len(hit)
                ids = {id(t) for t in hit}
                remaining = [t for t in remaining if id(t) not in ids]
        for t in remaining:
            self.violations.append(t)
        return remaining

    def add_violation(self, trace):
        self.violations.append(trace)

    # ---------------------------------------------------------------- finish
    def finish(self):
        self.join_mc()
        env.EVIDENCE.mkdir(exist_ok=True)
        rdir = env.REPLAYS / self.pid
        replay_paths = []
        if self.violations:
            rdir.mkdir(parents=True, exist_ok=True)
            # one replay file per distinct violation, at most 20 written
            for t in self.violations[:20]:
                blob = json.dumps(t, sort_keys=True, default=str)
                p = rdir / (hashlib.sha256(blob.encode()).hexdigest()[:16] + ".json")
                p.write_text(blob)
                replay_paths.append(str(p))
        try:   # triage aid (git-ignored): every unexplained rejection of this run
            env.WORK.mkdir(exist_ok=True)
            (env.WORK / f"{self.pid}_rejected.json").write_text(json.dumps(self.violations[:50000], default=str))
        except OSError:
            pass
        for fid, cnt in self.known_hit.items():
            print(f"KNOWN-FINDING: property={self.pid} {fid} {self.known[fid]['what']} ({cnt} traces)")
        cov = {
            "states": self.states, "transitions": self.transitions,
            "traces_validated_against_impl": self.traces_ok,
            "evaluations": self.evaluations,
            "distinct_nontrivial": len(self.distinct),
            "rule": self.rule,
            "samples": self.samples[:3] or [{"note": "no traces in this run"}],
            "exhaustive": bool(self.exhaustive),
            "tlc_runs": self.mc_runs,
            "known_findings_hit": self.known_hit,
            "tree_hash": self.tree,
        }
        cov["timing"] = self.timing
        cov.update(self.notes)
        ev = {"property_id": self.pid, "tier": self.tier, "seed": self.seed, "level": "model_checking",
              "coverage": cov, "assumptions": self.assumptions,
              "wall_s": round(time.time() - self.t0, 1), "violations": len(self.violations)}
        (env.EVIDENCE / f"{self.pid}.json").write_text(json.dumps(ev, indent=1, default=str))
        if self.violations:
            for p in replay_paths[:5]:
                print(f"VIOLATION property={self.pid} replay={p}")
            print(f"{self.pid}: {len(self.violations)} violating traces (first {len(replay_paths)} written)")
            return 1
        print(f"{self.pid} {self.tier}: OK  states={self.states} transitions={self.transitions} "
              f"traces_validated={self.traces_ok} evaluations={self.evaluations} wall={ev['wall_s']}s")
        return 0
