------------------------------ MODULE GBValidate ------------------------------
(***************************************************************************)
(* Argument validation (C18) as a state machine: every public operation is  *)
(* a pipeline of validation steps followed by the computation.              *)
(*                                                                           *)
(* Anchors: core._validate_input_lengths_and_indexes, GroupBy.              *)
(* _preprocess_arguments (lengths, pandas indexes, boolean mask),           *)
(* util.check_data_inputs_aligned (numba / emas entry points),              *)
(* _get_row_selection, per-kernel guards.                                    *)
(*                                                                           *)
(* An argument is described by its length difference to the number of key   *)
(* rows and by the relation of its pandas index to the keys' index.         *)
(***************************************************************************)
EXTENDS Integers, FiniteSets, TLC

CONSTANTS Deltas,            \* length differences explored (model checking)
          SkipLengthCheck,   \* deviation: the step comparing lengths with the keys is missing (D17)
          SkipIndexCheck     \* deviation: the step comparing pandas indexes is missing (D23)

DeltaSet == -2 .. 2
IdxRels == {"identical", "none", "permuted", "shifted", "duplicated"}
(* "none": the argument is not a pandas object (no index to compare) *)

VARIABLES delta, idxrel, pc, outcome
vvars == <<delta, idxrel, pc, outcome>>

Misaligned(d, r) == d # 0 \/ r \in {"permuted", "shifted", "duplicated"}

Init == delta \in Deltas /\ idxrel \in IdxRels /\ pc = "lengths" /\ outcome = "pending"
CheckLengths == /\ pc = "lengths"
                /\ IF delta # 0 /\ ~SkipLengthCheck THEN pc' = "done" /\ outcome' = "reject"
                   ELSE pc' = "indexes" /\ UNCHANGED outcome
                /\ UNCHANGED <<delta, idxrel>>
CheckIndexes == /\ pc = "indexes"
                /\ IF idxrel \in {"permuted", "shifted", "duplicated"} /\ ~SkipIndexCheck THEN pc' = "done" /\ outcome' = "reject"
                   ELSE pc' = "compute" /\ UNCHANGED outcome
                /\ UNCHANGED <<delta, idxrel>>
Compute == /\ pc = "compute" /\ pc' = "done" /\ outcome' = "return" /\ UNCHANGED <<delta, idxrel>>
Next == CheckLengths \/ CheckIndexes \/ Compute
Spec == Init /\ [][Next]_vvars

MisalignedRejected == pc = "done" => (Misaligned(delta, idxrel) => outcome = "reject")
AlignedAccepted == pc = "done" => (~Misaligned(delta, idxrel) => outcome = "return")
=============================================================================
