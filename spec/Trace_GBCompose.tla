--------------------------- MODULE Trace_GBCompose ---------------------------
(***************************************************************************)
(* C16 (iii): composite helpers are consistent with the primitives.  One    *)
(* trace: one composite call together with the primitive calls it must      *)
(* agree with, all made on the same grouping with the same mask.            *)
(*  agg     : T.labels, T.cols  (one column per function)                   *)
(*            T.slabels, T.singles (the individual calls)                   *)
(*  ratio   : T.r (rationals), T.s1, T.s2 (the two sums)                     *)
(*  density : T.d (rationals, percent), T.sizes (group sizes or sums)        *)
(* (each primitive call is itself validated against GBCore by C01/C16)      *)
(***************************************************************************)
EXTENDS GBValues, Json, IOUtils, TLC, TLCExt
Traces == JsonDeserialize(IOEnv.TRACE_FILE)
VARIABLES tid, tpc
T == Traces[tid]
TraceInit == tid \in 1..Len(Traces) /\ tpc = "call"

RECURSIVE SumS(_, _)
SumS(s, j) == IF j > Len(s) THEN 0 ELSE s[j] + SumS(s, j + 1)
RECURSIVE RatSum(_, _)
RatSum(s, j) == IF j > Len(s) THEN <<0, 1>> ELSE RatAdd(s[j], RatSum(s, j + 1))

AggOk == /\ Len(T.cols) = Len(T.singles)
         /\ \A c \in 1..Len(T.cols) : T.cols[c] = T.singles[c] /\ T.labels = T.slabels[c]
RatioOk == /\ Len(T.r) = Len(T.s1) /\ Len(T.r) = Len(T.s2)
           /\ \A j \in 1..Len(T.r) : IF T.s2[j] = 0 THEN TRUE ELSE T.r[j] = Rat(T.s1[j], T.s2[j])
DensityOk == LET total == SumS(T.sizes, 1) IN
             /\ Len(T.d) = Len(T.sizes)
             /\ IF total = 0 THEN TRUE
                ELSE /\ \A j \in 1..Len(T.d) : T.d[j] = Rat(100 * T.sizes[j], total)
                     /\ RatSum(T.d, 1) = <<100, 1>>
Ok == /\ T.out = "ok"
      /\ CASE T.kind = "agg" -> AggOk [] T.kind = "ratio" -> RatioOk [] T.kind = "density" -> DensityOk
TraceReturn == /\ tpc = "call" /\ Ok /\ PrintT(<<"ACCEPT", tid>>) /\ tpc' = "done" /\ UNCHANGED tid
TraceSpec == TraceInit /\ [][TraceReturn]_<<tid, tpc>>
=============================================================================
