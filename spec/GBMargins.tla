------------------------------- MODULE GBMargins -------------------------------
(***************************************************************************)
(* Margins (C14).  The library computes an 'All' row by RE-AGGREGATING the  *)
(* per-group results over the summarised levels (core.add_row_margin:       *)
(* data.groupby(level=other_levels).agg(agg_func), mean margins from        *)
(* re-aggregated sums and counts); the property states it as the            *)
(* aggregation of the raw selected rows.  This module checks that the two   *)
(* agree for every input in the domain, and defines the expected margin     *)
(* table used by trace validation.                                           *)
(***************************************************************************)
EXTENDS GBValues, TLC

CONSTANTS Labels, Vals, MaxRows,
          MeanOfMeans        \* deviation: a mean margin computed as the mean of the group means

All == 0                      \* the 'All' marker inside a label tuple (label ids are >= 1)
MOps == {"sum", "count", "size", "min", "max", "mean"}

VARIABLES op, rows        \* rows: Seq([key: <<k1, k2>>, v, sel])
mvars == <<op, rows>>

KeyNull(key) == \E j \in 1..Len(key) : key[j] = Null
Matches(key, lab) == ~KeyNull(key) /\ \A j \in 1..Len(lab) : lab[j] = All \/ lab[j] = key[j]
ValsOf(rs, lab) == LET pick == SelectSeq(rs, LAMBDA r : r.sel /\ Matches(r.key, lab))
                   IN  [j \in 1..Len(pick) |-> pick[j].v]
(* the aggregation of everything a label tuple summarises, from the raw rows *)
DefAgg(o, s) == CASE o = "sum" -> DefSum(s) [] o = "count" -> DefCount(s) [] o = "size" -> Len(s)
                  [] o = "min" -> DefMin(s) [] o = "max" -> DefMax(s) [] o = "mean" -> DefMean(s)
DefCell(o, rs, lab) == DefAgg(o, ValsOf(rs, lab))

(* ordinary (fully specified) labels that are observed *)
Ordinary(rs) == {rs[j].key : j \in {jj \in 1..Len(rs) : rs[jj].sel /\ ~KeyNull(rs[jj].key)}}
Generalise(lab, S) == [j \in 1..Len(lab) |-> IF j \in S THEN All ELSE lab[j]]
(* every label of the margin table for the requested levels *)
MarginLabels(rs, levels) == Ordinary(rs) \cup
   {Generalise(lab, S) : lab \in Ordinary(rs), S \in (SUBSET levels) \ {{}}}

(* the mechanism: an 'All' cell re-aggregates the ordinary cells it covers *)
Covered(rs, lab) == {o \in Ordinary(rs) : \A j \in 1..Len(lab) : lab[j] = All \/ lab[j] = o[j]}
RECURSIVE SetToSeq(_)
SetToSeq(S) == IF S = {} THEN <<>> ELSE LET x == CHOOSE y \in S : TRUE IN <<x>> \o SetToSeq(S \ {x})
ReAgg(o, rs, lab) ==
  LET cells == SetToSeq(Covered(rs, lab))
      part(f) == [j \in 1..Len(cells) |-> DefCell(f, rs, cells[j])]
  IN  CASE o \in {"sum", "count", "size"} -> DefSum(part(o))
        [] o = "min" -> DefMin(part("min"))
        [] o = "max" -> DefMax(part("max"))
        [] o = "mean" -> IF MeanOfMeans
                         THEN (LET ms == part("mean")
                                   ok == SelectSeq(ms, LAMBDA m : m # NullRat)
                               IN  IF ok = <<>> THEN NullRat
                                   ELSE LET RECURSIVE RS(_, _)
                                            RS(s, j) == IF j > Len(s) THEN <<0, 1>> ELSE RatAdd(s[j], RS(s, j + 1))
                                        IN  RatDiv(RS(ok, 1), <<Len(ok), 1>>))
                         ELSE (LET s == DefSum(part("sum"))
                                   c == DefSum(part("count"))
                               IN  IF c = 0 THEN NullRat ELSE Rat(s, c))

KeySpace == [1..2 -> Labels \cup {Null}]
Init == op \in MOps /\ rows = <<>>
AddRow == /\ Len(rows) < MaxRows
          /\ \E k \in KeySpace, v \in Vals \cup {Null}, s \in BOOLEAN : rows' = Append(rows, [key |-> k, v |-> v, sel |-> s])
          /\ UNCHANGED op
Spec == Init /\ [][AddRow]_mvars

ReAggIsAgg == \A lab \in MarginLabels(rows, {1, 2}) : ReAgg(op, rows, lab) = DefCell(op, rows, lab)
=============================================================================
