------------------------------ MODULE GBParallel ------------------------------
(***************************************************************************)
(* util.parallel_map / util.parallel_reduce as a state machine (C03: "the   *)
(* order in which parallel tasks finish").                                   *)
(*                                                                           *)
(* Anchors (groupby_lib/util.py):                                            *)
(*   parallel_map: one argument tuple -> the function runs inline in the    *)
(*     caller (action Inline); otherwise every task is submitted to a       *)
(*     ThreadPoolExecutor (a FIFO work queue served by at most `workers`    *)
(*     threads: Start, Finish), the as_completed loop stores each result    *)
(*     at the index of its task (Collect), the first exception the loop     *)
(*     meets is re-raised (Collect of a raising task) -- the `with` block   *)
(*     then still waits for every task that was submitted (Drain);          *)
(*   parallel_reduce: reduce(op, parallel_map(...)) -- a left fold of the   *)
(*     gathered list in INDEX order (Reduce); the operator is modelled as   *)
(*     sequence concatenation, the least forgiving (non-commutative) one.   *)
(***************************************************************************)
EXTENDS Integers, Sequences, FiniteSets, TLC

CONSTANTS NTasksMax,
          MaxWorkers,
          MayRaise,             \* TRUE: any subset of the tasks raises
          GatherByCompletion    \* deviation: results appended in completion order

VARIABLES ntasks, workers, raises, status, results, order, pc, exc, reduced
(* status : [task -> "queued" | "running" | "finished" | "collected"]                       *)
(* order  : the order in which the as_completed loop has met the tasks so far               *)
(* pc     : "running" | "returned" | "raised";  exc: the task whose exception propagated    *)
pvars == <<ntasks, workers, raises, status, results, order, pc, exc, reduced>>

F(i) == 100 + i          \* the value task i computes (distinct per task)
None == -1
Tasks == 1..ntasks

Init == /\ ntasks \in 1..NTasksMax
        /\ workers \in 1..MaxWorkers
        /\ raises \in (IF MayRaise THEN SUBSET (1..ntasks) ELSE {{}})
        /\ status = [i \in 1..ntasks |-> "queued"]
        /\ results = IF GatherByCompletion THEN <<>> ELSE [i \in 1..ntasks |-> None]
        /\ order = <<>>
        /\ pc = "running" /\ exc = None /\ reduced = <<>>

Running == {i \in Tasks : status[i] = "running"}
Queued == {i \in Tasks : status[i] = "queued"}

(* a single argument tuple: the function is called directly -- no pool, an exception propagates as it is *)
Inline == /\ pc = "running" /\ ntasks = 1 /\ status[1] = "queued"
          /\ status' = [status EXCEPT ![1] = "collected"]
          /\ order' = <<1>>
          /\ IF 1 \in raises
             THEN pc' = "raised" /\ exc' = 1 /\ UNCHANGED results
             ELSE pc' = "returned" /\ exc' = None
                  /\ results' = IF GatherByCompletion THEN <<F(1)>> ELSE [results EXCEPT ![1] = F(1)]
          /\ UNCHANGED <<ntasks, workers, raises, reduced>>

(* a free worker thread takes the OLDEST queued task *)
Start(i) == /\ ntasks > 1 /\ status[i] = "queued"
            /\ \A j \in Queued : i <= j
            /\ Cardinality(Running) < workers
            /\ status' = [status EXCEPT ![i] = "running"]
            /\ UNCHANGED <<ntasks, workers, raises, results, order, pc, exc, reduced>>
Finish(i) == /\ status[i] = "running"
             /\ status' = [status EXCEPT ![i] = "finished"]
             /\ UNCHANGED <<ntasks, workers, raises, results, order, pc, exc, reduced>>

(* the as_completed loop meets a finished future: stores its result or re-raises its exception *)
Collect(i) == /\ pc = "running" /\ ntasks > 1 /\ status[i] = "finished"
              /\ status' = [status EXCEPT ![i] = "collected"]
              /\ order' = Append(order, i)
              /\ IF i \in raises
                 THEN pc' = "raised" /\ exc' = i /\ UNCHANGED results
                 ELSE /\ results' = IF GatherByCompletion THEN Append(results, F(i)) ELSE [results EXCEPT ![i] = F(i)]
                      /\ UNCHANGED <<pc, exc>>
              /\ UNCHANGED <<ntasks, workers, raises, reduced>>
(* Start, Finish and Collect of one task in one step (used by the trace specification, where only Collect is logged) *)
RunAndCollect(i) ==
              /\ pc = "running" /\ ntasks > 1 /\ status[i] # "collected"
              /\ status' = [status EXCEPT ![i] = "collected"]
              /\ order' = Append(order, i)
              /\ IF i \in raises
                 THEN pc' = "raised" /\ exc' = i /\ UNCHANGED results
                 ELSE /\ results' = IF GatherByCompletion THEN Append(results, F(i)) ELSE [results EXCEPT ![i] = F(i)]
                      /\ UNCHANGED <<pc, exc>>
              /\ UNCHANGED <<ntasks, workers, raises, reduced>>

Return == /\ pc = "running" /\ ntasks > 1 /\ \A i \in Tasks : status[i] = "collected"
          /\ pc' = "returned"
          /\ UNCHANGED <<ntasks, workers, raises, status, results, order, exc, reduced>>

(* parallel_reduce: functools.reduce over the gathered list, i.e. in index order *)
RECURSIVE FoldCat(_, _)
FoldCat(rs, j) == IF j > Len(rs) THEN <<>> ELSE <<rs[j]>> \o FoldCat(rs, j + 1)
Reduce == /\ pc = "returned" /\ reduced = <<>>
          /\ reduced' = FoldCat(results, 1)
          /\ UNCHANGED <<ntasks, workers, raises, status, results, order, pc, exc>>

StartAny == \E i \in 1..NTasksMax : i <= ntasks /\ Start(i)
FinishAny == \E i \in 1..NTasksMax : i <= ntasks /\ Finish(i)
CollectAny == \E i \in 1..NTasksMax : i <= ntasks /\ Collect(i)
Next == Inline \/ StartAny \/ FinishAny \/ CollectAny \/ Return \/ Reduce
Spec == Init /\ [][Next]_pvars
FairSpec == Spec /\ WF_pvars(Next)

-----------------------------------------------------------------------------
TypeOK == /\ \A i \in Tasks : status[i] \in {"queued", "running", "finished", "collected"}
          /\ pc \in {"running", "returned", "raised"}
(* C03: results are gathered by submission index whatever the completion order *)
GatheredByIndex == pc = "returned" => \A i \in 1..ntasks : results[i] = F(i)
EachOnce == \A a, b \in 1..Len(order) : a # b => order[a] # order[b]
(* a call returns only if no task raised; the exception that propagates is the first one the loop met *)
ReturnsOnlyIfNoneRaised == pc = "returned" => raises = {}
RaisedIsFirstMet == pc = "raised" => /\ exc \in raises /\ order[Len(order)] = exc
                                     /\ \A a \in 1..(Len(order) - 1) : order[a] \notin raises
(* the pool: at most `workers` tasks run at once, and tasks start in submission order *)
WorkerBound == Cardinality(Running) <= workers
FifoStart == \A i, j \in Tasks : (i < j /\ status[j] # "queued") => status[i] # "queued"
(* parallel_reduce folds in index order *)
ReducedInIndexOrder == reduced # <<>> => reduced = [i \in 1..ntasks |-> F(i)]
(* every call ends: it returns or raises (checked under FairSpec) *)
Terminates == <>(pc # "running")
=============================================================================
