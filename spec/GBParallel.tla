------------------------------ MODULE GBParallel ------------------------------
(***************************************************************************)
(* util.parallel_map as a state machine (C03: "the order in which parallel  *)
(* tasks finish").  Tasks are submitted in index order, finish in ANY       *)
(* order, and every result is stored at the index of its task.              *)
(*                                                                           *)
(* Anchor: util.parallel_map (future_to_index, as_completed loop,           *)
(* results[index] = future.result(), exception path).                        *)
(***************************************************************************)
EXTENDS Integers, Sequences, FiniteSets, TLC

CONSTANTS NTasksMax,
          GatherByCompletion   \* deviation: results appended in completion order

VARIABLES ntasks, status, results, order, pc
(* status : [task -> "pending" | "done"]; order: completion order so far *)
pvars == <<ntasks, status, results, order, pc>>

F(i) == 100 + i          \* the value task i computes (distinct per task)
None == -1

Init == /\ ntasks \in 1..NTasksMax
        /\ status = [i \in 1..ntasks |-> "pending"]
        /\ results = IF GatherByCompletion THEN <<>> ELSE [i \in 1..ntasks |-> None]
        /\ order = <<>>
        /\ pc = "running"

(* a task completes; the as_completed loop stores its result *)
Collect(i) == /\ pc = "running" /\ status[i] = "pending"
              /\ status' = [status EXCEPT ![i] = "done"]
              /\ results' = IF GatherByCompletion THEN Append(results, F(i)) ELSE [results EXCEPT ![i] = F(i)]
              /\ order' = Append(order, i)
              /\ UNCHANGED <<ntasks, pc>>
Return == /\ pc = "running" /\ \A i \in 1..ntasks : status[i] = "done"
          /\ pc' = "returned" /\ UNCHANGED <<ntasks, status, results, order>>
Next == (\E i \in 1..ntasks : Collect(i)) \/ Return
Spec == Init /\ [][Next]_pvars

GatheredByIndex == pc = "returned" => \A i \in 1..ntasks : results[i] = F(i)
EachOnce == \A a, b \in 1..Len(order) : a # b => order[a] # order[b]
=============================================================================
