--------------------------- MODULE Trace_GBParallel ---------------------------
(***************************************************************************)
(* Trace validation for the pool (C03): one trace = one real                *)
(* util.parallel_map (or parallel_reduce) call whose completion order was   *)
(* forced by the harness-side scheduler.                                     *)
(*   T.n        number of tasks (task i computes 100 + i, or raises)        *)
(*   T.raises   0-based indices of the tasks that raise                      *)
(*   T.order    0-based order in which the done-callbacks saw the tasks     *)
(*              complete, up to and including the one whose exception       *)
(*              propagated (all of them when the call returned)              *)
(*   T.outcome  "returned" | "raised";  T.exc  0-based task whose exception *)
(*              came out of the call (-1: none)                               *)
(*   T.results  what parallel_map returned; T.reduced what parallel_reduce  *)
(*              returned (concatenation of one-element lists), <<>> if n/a   *)
(***************************************************************************)
EXTENDS GBParallel, Json, IOUtils, TLCExt
Traces == JsonDeserialize(IOEnv.TRACE_FILE)
VARIABLES tid, l
T == Traces[tid]
TraceInit == /\ tid \in 1..Len(Traces)
             /\ ntasks = Traces[tid].n /\ workers = Traces[tid].n
             /\ raises = {Traces[tid].raises[j] + 1 : j \in 1..Len(Traces[tid].raises)}
             /\ status = [i \in 1..Traces[tid].n |-> "queued"]
             /\ results = [i \in 1..Traces[tid].n |-> None]
             /\ order = <<>> /\ pc = "running" /\ exc = None /\ reduced = <<>> /\ l = 1
TraceInline == /\ T.n = 1 /\ l = 1 /\ Inline /\ l' = 2 /\ UNCHANGED tid
TraceCollect == /\ T.n > 1 /\ l <= Len(T.order) /\ RunAndCollect(T.order[l] + 1) /\ l' = l + 1 /\ UNCHANGED tid
TraceReturn == /\ T.n > 1 /\ l = Len(T.order) + 1 /\ Return /\ l' = l + 1 /\ UNCHANGED tid
TraceReduce == /\ pc = "returned" /\ Len(T.reduced) > 0 /\ Reduce /\ l' = l + 1 /\ UNCHANGED tid
TraceDone == /\ pc \in {"returned", "raised"} /\ (Len(T.reduced) > 0 => reduced # <<>> \/ pc = "raised")
             /\ T.outcome = pc
             /\ (pc = "returned" => T.results = results /\ T.reduced = reduced)
             /\ (pc = "raised" => T.exc + 1 = exc)
             /\ PrintT(<<"ACCEPT", tid>>)
             /\ pc' = "checked" /\ l' = l + 1
             /\ UNCHANGED <<ntasks, workers, raises, status, results, order, exc, reduced, tid>>
TraceSpec == TraceInit /\ [][TraceInline \/ TraceCollect \/ TraceReturn \/ TraceReduce \/ TraceDone]_<<pvars, tid, l>>
=============================================================================
