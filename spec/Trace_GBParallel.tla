--------------------------- MODULE Trace_GBParallel ---------------------------
(***************************************************************************)
(* Trace validation for the pool (C03): one trace = one real                *)
(* util.parallel_map call whose completion order was forced by the          *)
(* harness-side scheduler.  T = [n, order (0-based completion order as      *)
(* observed by the done-callbacks), results (what parallel_map returned,    *)
(* task i computes 100 + i)]                                                 *)
(***************************************************************************)
EXTENDS GBParallel, Json, IOUtils, TLCExt
Traces == JsonDeserialize(IOEnv.TRACE_FILE)
VARIABLES tid, l
T == Traces[tid]
TraceInit == /\ tid \in 1..Len(Traces)
             /\ ntasks = Traces[tid].n
             /\ status = [i \in 1..Traces[tid].n |-> "pending"]
             /\ results = [i \in 1..Traces[tid].n |-> None]
             /\ order = <<>> /\ pc = "running" /\ l = 1
TraceCollect == /\ l <= Len(T.order) /\ Collect(T.order[l] + 1) /\ l' = l + 1 /\ UNCHANGED tid
TraceReturn == /\ l = Len(T.order) + 1 /\ Return
               /\ T.results = results'
               /\ PrintT(<<"ACCEPT", tid>>)
               /\ l' = l + 1 /\ UNCHANGED tid
TraceSpec == TraceInit /\ [][TraceCollect \/ TraceReturn]_<<pvars, tid, l>>
=============================================================================
