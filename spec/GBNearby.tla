------------------------------ MODULE GBNearby ------------------------------
(***************************************************************************)
(* group_nearby_members: split every group into sub-groups of members whose *)
(* values are close to the previous member of the same group (growth of the *)
(* specification beyond the listed properties; exercised by C06 and C13).   *)
(*                                                                           *)
(* Anchors: numba.group_nearby_members (one forward scan with per-group     *)
(* state seen / last_seen / group_tracker and one global counter),          *)
(* core.GroupBy.group_nearby_members (unifies chunked keys first).          *)
(*                                                                           *)
(* A row of group g opens a new sub-group iff it is the first row of g or   *)
(* its value differs from the previous row of g by more than MaxDiff;       *)
(* sub-groups are numbered 0, 1, 2, ... in the order in which they are      *)
(* opened, over all groups.  A row with a null key belongs to no group: it  *)
(* gets the marker -1 and changes nothing.                                   *)
(***************************************************************************)
EXTENDS Integers, Sequences, FiniteSets

Null == -999

CONSTANTS Groups, Vals, MaxRows, MaxDiffs,   \* model checking domain
          NullKeyIsLastGroup                 \* deviation: a null key indexes the state with -1 (the last group)

VARIABLES maxdiff, st, counter, out, hist
(* st : [g -> [seen, last, sub]] ; hist : Seq([k, v])                        *)
nvars == <<maxdiff, st, counter, out, hist>>

Abs(x) == IF x < 0 THEN -x ELSE x
RECURSIVE SetMax(_)
SetMax(S) == LET x == CHOOSE y \in S : TRUE IN IF S = {x} THEN x ELSE LET m == SetMax(S \ {x}) IN IF x > m THEN x ELSE m
LastGroup == SetMax(Groups)

NearbyInit(d) == /\ maxdiff = d
                 /\ st = [g \in Groups |-> [seen |-> FALSE, last |-> 0, sub |-> -1]]
                 /\ counter = -1 /\ out = <<>> /\ hist = <<>>

StepGroup(g, v) ==
  LET s == st[g]
      new == ~s.seen \/ Abs(v - s.last) > maxdiff
      c == IF new THEN counter + 1 ELSE counter
      sub == IF new THEN c ELSE s.sub
  IN  /\ counter' = c
      /\ st' = [st EXCEPT ![g] = [seen |-> TRUE, last |-> v, sub |-> sub]]
      /\ out' = Append(out, sub)

RowNearby(k, v) ==
  /\ hist' = Append(hist, [k |-> k, v |-> v])
  /\ UNCHANGED maxdiff
  /\ IF k = Null
     THEN IF NullKeyIsLastGroup
          THEN StepGroup(LastGroup, v)
          ELSE /\ out' = Append(out, -1) /\ UNCHANGED <<st, counter>>
     ELSE StepGroup(k, v)

-----------------------------------------------------------------------------
(* definition from the row history                                           *)
PrevOf(i) == LET S == {j \in 1..(i - 1) : hist[j].k = hist[i].k} IN IF S = {} THEN 0 ELSE SetMax(S)
Opens(i) == hist[i].k # Null /\ (PrevOf(i) = 0 \/ Abs(hist[i].v - hist[PrevOf(i)].v) > maxdiff)
RECURSIVE OpenerOf(_)
OpenerOf(i) == IF Opens(i) THEN i ELSE OpenerOf(PrevOf(i))
DefSub(i) == IF hist[i].k = Null THEN -1
             ELSE Cardinality({j \in 1..OpenerOf(i) : Opens(j)}) - 1

Init == \E d \in MaxDiffs : NearbyInit(d)
Next == /\ Len(hist) < MaxRows
        /\ \E k \in Groups \cup {Null}, v \in Vals : RowNearby(k, v)
Spec == Init /\ [][Next]_nvars

NearbyIsDef == \A i \in 1..Len(hist) : out[i] = DefSub(i)
NullKeyIsStutter == [][(Len(hist') = Len(hist) + 1 /\ hist'[Len(hist')].k = Null) => (st' = st /\ counter' = counter)]_nvars
=============================================================================
