--------------------------- MODULE Trace_GBSelect ---------------------------
(***************************************************************************)
(* Trace validation for head / tail / nth (C15, C06).  One trace: one real  *)
(* GroupBy.head/tail/nth(values, n, keep_input_index=True) call.            *)
(*  small mode: T = [kind, n, keys, idx, rows, ridx]: one Visit action per  *)
(*     row of the scan, then Return compares the selected rows.             *)
(*  by-group mode (keep_input_index=False): T = [kind, n, keys, sort, rows,  *)
(*     glabels, gpos]: rows listed group by group (label order, or first    *)
(*     appearance for sort=False), numbered within the selection.           *)
(*  rle mode (scaled replays at the 2^7 / 2^15 / 2^16 counter widths):      *)
(*     T = [kind, n, runs, rows]: keys given as runs <<group, length>>; the *)
(*     selection is compared with the definition evaluated on the runs.     *)
(*  kernel mode (numba.find_first_n / find_last_n with a boolean mask):     *)
(*     T = [kmode, kind head|tail, n, keys (group ids 1..ngroups or Null),  *)
(*     sel (mask bits), ngroups, mat (one row of n positions per group,     *)
(*     -1 = empty slot)]: an unselected row is scanned like a null-key row. *)
(***************************************************************************)
EXTENDS GBSelect, Json, IOUtils, TLC, TLCExt

Traces == JsonDeserialize(IOEnv.TRACE_FILE)
VARIABLES tid, tpc
tvars == <<svars, tid, tpc>>
T == Traces[tid]
IsRle == "runs" \in DOMAIN T

TraceInit == /\ tid \in 1..Len(Traces)
             /\ SelInit(Traces[tid].kind, Traces[tid].n,
                        IF "runs" \in DOMAIN Traces[tid] THEN <<>>
                        ELSE IF "kmode" \in DOMAIN Traces[tid]       \* a masked row is skipped like a null-key row
                             THEN [r \in 1..Len(Traces[tid].keys) |-> IF Traces[tid].sel[r] = 1 THEN Traces[tid].keys[r] ELSE Null]
                             ELSE Traces[tid].keys)
             /\ tpc = "scan"

TraceVisit == /\ tpc = "scan" /\ ~IsRle /\ Visit /\ UNCHANGED <<tid, tpc>>

Distinct(s) == \A a, b \in 1..Len(s) : a # b => s[a] # s[b]
SmallOk ==
  /\ T.out = "ok"
  /\ scanned = Len(keys)
  /\ {T.rows[j] + 1 : j \in 1..Len(T.rows)} = picked            \* exactly the requested rows
  /\ Distinct(T.rows)                                             \* each once
  /\ Len(T.ridx) = Len(T.rows)
  /\ \A j \in 1..Len(T.rows) : T.ridx[j] = T.idx[T.rows[j] + 1]   \* with its original index label
  /\ \A a, b \in 1..Len(T.rows) :                                 \* original relative order within a group
       (a < b /\ keys[T.rows[a] + 1] = keys[T.rows[b] + 1]) => T.rows[a] < T.rows[b]

(* ---- keep_input_index = FALSE: rows listed group by group, labelled (group label, position within the selection) ---- *)
IsByGroup == "glabels" \in DOMAIN T
FirstPos(g) == CHOOSE i \in 1..Len(keys) : keys[i] = g /\ \A j \in 1..(i - 1) : keys[j] # g
Before(g, h) == IF T.sort = 1 THEN g < h ELSE FirstPos(g) < FirstPos(h)        \* listing order of the groups
ByGroupOk ==
  /\ T.out = "ok"
  /\ scanned = Len(keys)
  /\ {T.rows[j] + 1 : j \in 1..Len(T.rows)} = picked
  /\ Distinct(T.rows)
  /\ Len(T.glabels) = Len(T.rows) /\ Len(T.gpos) = Len(T.rows)
  /\ \A j \in 1..Len(T.rows) :
        /\ T.glabels[j] = keys[T.rows[j] + 1]                                   \* labelled with its own group
        \* nth: no position level.  head: numbered 0, 1, .. from the first selected row of the group.  tail: the n slots are
        \* right-aligned (the last row of the group is n-1), as the backward scan fills them (no property states the numbering:
        \* this is what the code does)
        /\ T.gpos[j] = CASE kind = "nth" -> -1
                         [] kind = "head" -> Cardinality({x \in picked : keys[x] = keys[T.rows[j] + 1] /\ x < T.rows[j] + 1})
                         [] kind = "tail" -> narg - Cardinality({x \in picked : keys[x] = keys[T.rows[j] + 1] /\ x >= T.rows[j] + 1})
  /\ \A a, b \in 1..Len(T.rows) : a < b =>
        \/ Before(T.glabels[a], T.glabels[b])
        \/ (T.glabels[a] = T.glabels[b] /\ T.rows[a] < T.rows[b])

(* ---- definition on run-length encoded keys ---- *)
RECURSIVE RunStarts(_, _, _)
RunStarts(runs, j, acc) == IF j > Len(runs) THEN <<>> ELSE <<acc>> \o RunStarts(runs, j + 1, acc + runs[j][2])
GroupSize(runs, g) == LET f[j \in 0..Len(runs)] == IF j = 0 THEN 0 ELSE f[j - 1] + (IF runs[j][1] = g THEN runs[j][2] ELSE 0)
                      IN f[Len(runs)]
(* 0-based position of the r-th (0-based) row of group g *)
RECURSIVE PosOfRank(_, _, _, _, _)
PosOfRank(runs, starts, g, r, j) ==
  IF runs[j][1] = g THEN (IF r < runs[j][2] THEN starts[j] + r ELSE PosOfRank(runs, starts, g, r - runs[j][2], j + 1))
  ELSE PosOfRank(runs, starts, g, r, j + 1)
GroupsIn(runs) == {runs[j][1] : j \in 1..Len(runs)} \ {Null}
DefRle(k, n, runs) ==
  LET starts == RunStarts(runs, 1, 0) IN
  UNION {LET sz == GroupSize(runs, g) IN
         CASE k = "head" -> {PosOfRank(runs, starts, g, r, 1) : r \in 0..((IF n < sz THEN n ELSE sz) - 1)}
           [] k = "tail" -> {PosOfRank(runs, starts, g, r, 1) : r \in (IF n < sz THEN sz - n ELSE 0)..(sz - 1)}
           [] k = "nth"  -> IF n >= 0 THEN (IF n < sz THEN {PosOfRank(runs, starts, g, n, 1)} ELSE {})
                            ELSE (IF -n <= sz THEN {PosOfRank(runs, starts, g, sz + n, 1)} ELSE {})
         : g \in GroupsIn(runs)}
RleOk == /\ T.out = "ok"
         /\ {T.rows[j] : j \in 1..Len(T.rows)} = DefRle(T.kind, T.n, T.runs)
         /\ Distinct(T.rows)

(* ---- kernel mode: the (ngroups x n) matrix of row positions ---- *)
IsKernel == "kmode" \in DOMAIN T
RECURSIVE AscRows(_, _)
AscRows(S, from) == \* the members of S that are >= from, ascending
  IF {x \in S : x >= from} = {} THEN <<>>
  ELSE LET m == CHOOSE x \in S : x >= from /\ \A y \in S : y >= from => x <= y IN <<m>> \o AscRows(S, m + 1)
Pad(k) == [j \in 1..k |-> -1]
KernelOk ==
  /\ T.out = "ok" /\ scanned = Len(keys) /\ Len(T.mat) = T.ngroups
  /\ \A g \in 1..T.ngroups :
        LET rows == AscRows({i - 1 : i \in {x \in picked : keys[x] = g}}, 0)        \* 0-based, ascending
        IN  T.mat[g] = (IF kind = "head" THEN rows \o Pad(narg - Len(rows)) ELSE Pad(narg - Len(rows)) \o rows)
TraceReturn == /\ tpc = "scan"
               /\ IF IsRle THEN RleOk ELSE IF IsKernel THEN KernelOk ELSE IF IsByGroup THEN ByGroupOk ELSE SmallOk
               /\ PrintT(<<"ACCEPT", tid>>)
               /\ tpc' = "done"
               /\ UNCHANGED <<svars, tid>>
TraceNext == TraceVisit \/ TraceReturn
TraceSpec == TraceInit /\ [][TraceNext]_tvars
TraceInv == NoNullKeyPicked
=============================================================================
