--------------------------- MODULE Trace_GBMarker ---------------------------
(***************************************************************************)
(* C06, last clause: in row-aligned outputs the rows with a null key        *)
(* receive a *constant* marker that depends on no other row.  One trace =   *)
(* all the values observed at null-key rows for one (operation, dtype,      *)
(* embedding, entry point) over a whole run; accepted iff they are all the  *)
(* same value.                                                               *)
(***************************************************************************)
EXTENDS Integers, Sequences, Json, IOUtils, TLC, TLCExt
Traces == JsonDeserialize(IOEnv.TRACE_FILE)
VARIABLES tid, tpc
T == Traces[tid]
TraceInit == tid \in 1..Len(Traces) /\ tpc = "call"
Constant == \A a \in 1..Len(T.markers) : T.markers[a] = T.markers[1]
TraceReturn == /\ tpc = "call" /\ Constant /\ PrintT(<<"ACCEPT", tid>>) /\ tpc' = "done" /\ UNCHANGED tid
TraceSpec == TraceInit /\ [][TraceReturn]_<<tid, tpc>>
=============================================================================
