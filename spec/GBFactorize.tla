---------------------------- MODULE GBFactorize ----------------------------
(***************************************************************************)
(* Factorization of group keys (C02) as a state machine; the relation the   *)
(* property states and the mechanisms' operators are in GBFactorizeOps.     *)
(***************************************************************************)
EXTENDS GBFactorizeOps

-----------------------------------------------------------------------------
(* ---- the state machine ------------------------------------------------- *)
VARIABLES keys, sort, route, pc,
          cutoff,      \* rows taken by the monotone scan
          pieces,      \* Seq([lo, hi]) row ranges, piece 1 = monotone prefix when used
          ldict,       \* Seq(dictionary) per piece ("uniques")
          lcodes,      \* Seq(local codes) per piece
          done,        \* set of pieces whose factorization task has finished
          labels,      \* result index
          ptr,         \* Seq(pointer table) per piece
          codes        \* logical codes
fvars == <<keys, sort, route, pc, cutoff, pieces, ldict, lcodes, done, labels, ptr, codes>>

KeySpace == [1..NKeys -> LabelIds \cup {Null}]
RECURSIVE AllSeqs(_)
AllSeqs(n) == IF n = 0 THEN {<<>>} ELSE {Append(s, k) : s \in AllSeqs(n - 1), k \in KeySpace}
Inputs == UNION {AllSeqs(n) : n \in 0..MaxRows}

Init ==
  /\ keys \in Inputs
  /\ sort \in BOOLEAN
  /\ route \in (IF NKeys = 1 THEN {"plain", "chunked"} ELSE {"radix"})
  /\ pc = "start"
  /\ cutoff = 0 /\ pieces = <<>> /\ ldict = <<>> /\ lcodes = <<>> /\ done = {}
  /\ labels = <<>> /\ ptr = <<>> /\ codes = <<>>

(* plain: one dictionary, optional sort of the labels with code remap       *)
Plain ==
  /\ pc = "start" /\ route = "plain"
  /\ LET d == FirstAppear(keys, 1, <<>>)
         l == IF sort THEN SortLabels(d) ELSE d
     IN  labels' = l /\ codes' = CodesIn(keys, l)
  /\ pc' = "done"
  /\ UNCHANGED <<keys, sort, route, cutoff, pieces, ldict, lcodes, done, ptr>>

(* radix: per-component codes combined by weights; -1 anywhere => -1        *)
CompDict(j) == FirstAppear([i \in 1..Len(keys) |-> <<keys[i][j]>>], 1, <<>>)
CompCode(i, j) == IF keys[i][j] = Null THEN -1 ELSE IndexOf(CompDict(j), <<keys[i][j]>>) - 1
RECURSIVE Weight(_)
Weight(j) == IF j >= NKeys THEN 1 ELSE Len(CompDict(j + 1)) * Weight(j + 1)
RECURSIVE RadixSum(_, _)
RadixSum(i, j) == IF j > NKeys THEN 0 ELSE CompCode(i, j) * Weight(j) + RadixSum(i, j + 1)
RadixNull(i) == \E j \in 1..NKeys : CompCode(i, j) = -1 /\ (j < NKeys \/ ~LastKeyNullUnchecked)
RECURSIVE RadixScan(_, _, _, _)
RadixScan(i, seen, cds, labs) == \* seen: Seq(radix sums met), labs: Seq(key)
  IF i > Len(keys) THEN <<cds, labs>>
  ELSE IF RadixNull(i) THEN RadixScan(i + 1, seen, Append(cds, -1), labs)
  ELSE LET k == RadixSum(i, 1)
           g == IndexOf(seen, k)
       IN  IF g > 0 THEN RadixScan(i + 1, seen, Append(cds, g - 1), labs)
           ELSE RadixScan(i + 1, Append(seen, k), Append(cds, Len(seen)), Append(labs, keys[i]))
Radix ==
  /\ pc = "start" /\ route = "radix"
  /\ LET r == RadixScan(1, <<>>, <<>>, <<>>) IN codes' = r[1] /\ labels' = r[2]
  /\ pc' = "done"
  /\ UNCHANGED <<keys, sort, route, cutoff, pieces, ldict, lcodes, done, ptr>>

(* chunked: step 1, monotone scan                                            *)
Scan ==
  /\ pc = "start" /\ route = "chunked" /\ Len(keys) > 0
  /\ LET c == MonoCut(keys, 1) IN
     /\ cutoff' = c
     /\ IF c = Len(keys)
        THEN LET m == MonoCodes(keys, c, 1, <<<<>>, <<>>>>) IN
             /\ codes' = m[1] /\ labels' = m[2] /\ pc' = "done"
             /\ UNCHANGED <<pieces, ldict, lcodes, done>>
        ELSE LET usemono == 4 * c > Len(keys)
                 start == IF usemono THEN c ELSE 0
                 sz == SplitSizes(Len(keys) - start, NChunks)
                 off == Offsets(sz, 1, start)
                 rest == [j \in 1..NChunks |-> [lo |-> off[j] + 1, hi |-> off[j] + sz[j]]]
                 m == MonoCodes(keys, c, 1, <<<<>>, <<>>>>)
             IN  /\ pieces' = IF usemono THEN <<[lo |-> 1, hi |-> c]>> \o rest ELSE rest
                 /\ ldict' = IF usemono THEN <<m[2]>> \o [j \in 1..NChunks |-> <<>>] ELSE [j \in 1..NChunks |-> <<>>]
                 /\ lcodes' = IF usemono THEN <<m[1]>> \o [j \in 1..NChunks |-> <<>>] ELSE [j \in 1..NChunks |-> <<>>]
                 /\ done' = IF usemono THEN {1} ELSE {}
                 /\ pc' = "chunks"
                 /\ UNCHANGED <<codes, labels>>
  /\ UNCHANGED <<keys, sort, route, ptr>>

(* step 2: one factorization task per chunk, finishing in any order         *)
Slice(p) == [i \in 1..(p.hi - p.lo + 1) |-> keys[p.lo + i - 1]]
ChunkTask(c) ==
  /\ pc = "chunks" /\ c \in 1..Len(pieces) /\ c \notin done
  /\ LET s == Slice(pieces[c])
         d == FirstAppear(s, 1, <<>>)
     IN  /\ ldict' = [ldict EXCEPT ![c] = d]
         /\ lcodes' = [lcodes EXCEPT ![c] = CodesIn(s, d)]
  /\ done' = done \cup {c}
  /\ UNCHANGED <<keys, sort, route, pc, cutoff, pieces, labels, ptr, codes>>

(* step 3: result index = union of the dictionaries; pointer tables         *)
BuildIndex ==
  /\ pc = "chunks" /\ done = 1..Len(pieces)
  /\ LET u == DropDup(Concat(ldict, 1), 1, <<>>)
         l == IF sort THEN SortLabels(u) ELSE u
     IN  /\ labels' = l
         /\ ptr' = [c \in 1..Len(pieces) |-> [j \in 1..Len(ldict[c]) |-> IndexOf(l, ldict[c][j]) - 1]]
  /\ pc' = "pointers"
  /\ UNCHANGED <<keys, sort, route, cutoff, pieces, ldict, lcodes, done, codes>>

(* step 4: unification p[k] (done lazily by the library; the logical codes  *)
(* are what every consumer sees)                                             *)
Unify ==
  /\ pc = "pointers"
  /\ codes' = Concat([c \in 1..Len(pieces) |->
                 [i \in 1..Len(lcodes[c]) |->
                    LET k == lcodes[c][i] IN
                    IF k = -1
                    THEN (IF UnifyWrapsNull /\ Len(ptr[c]) > 0 THEN ptr[c][Len(ptr[c])] ELSE -1)
                    ELSE ptr[c][k + 1]]], 1)
  /\ pc' = "done"
  /\ UNCHANGED <<keys, sort, route, cutoff, pieces, ldict, lcodes, done, labels, ptr>>

Empty == /\ pc = "start" /\ route = "chunked" /\ Len(keys) = 0
         /\ pc' = "done" /\ UNCHANGED <<keys, sort, route, cutoff, pieces, ldict, lcodes, done, labels, ptr, codes>>

Next == Plain \/ Radix \/ Scan \/ (\E c \in 1..(NChunks + 1) : ChunkTask(c)) \/ BuildIndex \/ Unify \/ Empty
Spec == Init /\ [][Next]_fvars

(* ---- properties --------------------------------------------------------- *)
FinalFaithful == pc = "done" => Faithful(keys, codes, labels)
SortedWhenAsked == (pc = "done" /\ sort /\ NKeys = 1) =>
                     \A a, b \in 1..Len(labels) : a < b => Less(labels[a], labels[b])
(* every chunk's local view is itself faithful before unification            *)
LocalFaithful == pc \in {"chunks", "pointers"} =>
                   \A c \in done : Faithful(Slice(pieces[c]), lcodes[c], ldict[c])
PointersHit == pc = "pointers" =>
                 \A c \in 1..Len(pieces) : \A j \in 1..Len(ptr[c]) : labels[ptr[c][j] + 1] = ldict[c][j]
=============================================================================
