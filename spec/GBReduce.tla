------------------------------ MODULE GBReduce ------------------------------
(***************************************************************************)
(* The array-level group kernels (C04) as a state machine.                  *)
(*                                                                           *)
(* Anchors (groupby_lib/groupby/numba.py):                                   *)
(*   _group_by_reduce                 -> action Row (one loop iteration)     *)
(*   _chunk_groupby_args / array_split / chunked value lists                 *)
(*                                    -> action NewBlock (a block boundary)  *)
(*   combine_chunk_results_for_factorized_key / reduce_array_pair            *)
(*                                    -> the merge done inside NewBlock      *)
(*   _group_func_wrap slice / bool / positional masks -> operator Sel        *)
(*                                                                           *)
(* The machine runs the single-pass kernel and the block-wise kernel side   *)
(* by side on the same nondeterministic stream of rows, with block          *)
(* boundaries at arbitrary places (also empty blocks), and keeps the per    *)
(* group history of selected values for the definitional side.              *)
(***************************************************************************)
EXTENDS GBValues, GBSel

CONSTANTS NG,              \* groups are codes 0..NG-1; code -1 is the null key
          Vals,            \* non-null abstract values
          MaxRows,         \* bound on rows           (model checking only)
          MaxBlocks,       \* bound on block count    (model checking only)
          KernelSet,       \* kernels explored
          MergeUsesCount,  \* TRUE: intended merge; FALSE: deviation D5
          IsFloat          \* dtype class of the deviation (NaN vs int sentinel)

VARIABLES kernel,   \* the kernel of this run
          single,   \* [g -> partial]  single-pass state
          merged,   \* [g -> partial]  merge of the finished blocks
          cur,      \* [g -> partial]  state of the block being scanned
          nblocks,  \* finished blocks
          nrows,    \* rows consumed
          hist      \* [g -> Seq(value)]  selected values per group, row order

vars == <<kernel, single, merged, cur, nblocks, nrows, hist>>

Groups == 0 .. NG - 1
Codes  == Groups \cup {-1}
ValsN  == Vals \cup {Null}

EmptyAll(k) == [g \in Groups |-> EmptyP(k)]

MergeP(k, p, q) == IF MergeUsesCount THEN Merge(k, p, q) ELSE MergeDev(k, p, q, IsFloat)

Init == /\ kernel \in KernelSet
        /\ single = EmptyAll(kernel)
        /\ merged = EmptyAll(kernel)
        /\ cur = EmptyAll(kernel)
        /\ nblocks = 0
        /\ nrows = 0
        /\ hist = [g \in Groups |-> <<>>]

(* One iteration of the kernel loop on a *selected* row (c, v).             *)
(* `if key < 0: continue`                                                    *)
RowStep(c, v) ==
  /\ nrows' = nrows + 1
  /\ IF c < 0
     THEN UNCHANGED <<single, cur, hist>>
     ELSE /\ single' = [single EXCEPT ![c] = Step(kernel, @, v)]
          /\ cur' = [cur EXCEPT ![c] = Step(kernel, @, v)]
          /\ hist' = [hist EXCEPT ![c] = Append(@, v)]
  /\ UNCHANGED <<kernel, merged, nblocks>>

(* End of a block: its per-group partials are merged into the running       *)
(* combination.  The first block is taken as is (combined = chunks[0]).     *)
BlockStep ==
  /\ merged' = IF nblocks = 0 THEN cur
               ELSE [g \in Groups |-> MergeP(kernel, merged[g], cur[g])]
  /\ cur' = EmptyAll(kernel)
  /\ nblocks' = nblocks + 1
  /\ UNCHANGED <<kernel, single, nrows, hist>>

Row == /\ nrows < MaxRows
       /\ \E c \in Codes, v \in ValsN : RowStep(c, v)
NewBlock == /\ nblocks < MaxBlocks - 1
            /\ BlockStep

Next == Row \/ NewBlock
Spec == Init /\ [][Next]_vars

(* What the block-wise computation would return if the input ended here.    *)
BlockResult(g) ==
  LET fin == IF nblocks = 0 THEN cur[g] ELSE MergeP(kernel, merged[g], cur[g])
  IN  ResultOf(kernel, fin)
SingleResult(g) == ResultOf(kernel, single[g])

-----------------------------------------------------------------------------
(* Properties (C04).                                                         *)
SingleIsDef     == \A g \in Groups : SingleResult(g) = Def(kernel, hist[g])
BlocksAreSingle == \A g \in Groups : BlockResult(g) = SingleResult(g)
CountIsDef      == \A g \in Groups :
                     kernel \in {"sum", "sumsq", "min", "max", "first", "count"}
                       => single[g].c = DefCount(hist[g])
(* a partial whose count is positive holds data (what makes Merge sound)    *)
CountGuardsAcc  == \A g \in Groups :
                     (kernel \in {"min", "max", "first"} /\ single[g].c > 0)
                       => ~IsNull(single[g].a)
(* rows with a negative code never touch any state (C06 at kernel level)    *)
NullKeyStutters == [][\A g \in Groups : (nrows' = nrows + 1 /\ hist' = hist)
                          => (single' = single /\ cur' = cur)]_vars
=============================================================================
