------------------------------ MODULE GBReduce ------------------------------
(***************************************************************************)
(* The array-level group kernels (C04) as a state machine.                  *)
(*                                                                           *)
(* Anchors (groupby_lib/groupby/numba.py):                                   *)
(*   _group_by_reduce                 -> action Row (one loop iteration)     *)
(*   _chunk_groupby_args / array_split / chunked value lists                 *)
(*                                    -> action NewBlock (a block boundary)  *)
(*   combine_chunk_results_for_factorized_key / reduce_array_pair            *)
(*                                    -> the merge done inside NewBlock      *)
(*   _group_func_wrap slice / bool / positional masks -> operator Sel        *)
(*                                                                           *)
(* The machine runs the single-pass kernel and the block-wise kernel side   *)
(* by side on the same nondeterministic stream of rows, with block          *)
(* boundaries at arbitrary places (also empty blocks), and keeps the per    *)
(* group history of selected values for the definitional side.              *)
(***************************************************************************)
EXTENDS GBValues

CONSTANTS NG,              \* groups are codes 0..NG-1; code -1 is the null key
          Vals,            \* non-null abstract values
          MaxRows,         \* bound on rows           (model checking only)
          MaxBlocks,       \* bound on block count    (model checking only)
          KernelSet,       \* kernels explored
          MergeUsesCount,  \* TRUE: intended merge; FALSE: deviation D5
          IsFloat          \* dtype class of the deviation (NaN vs int sentinel)

VARIABLES kernel,   \* the kernel of this run
          single,   \* [g -> partial]  single-pass state
          merged,   \* [g -> partial]  merge of the finished blocks
          cur,      \* [g -> partial]  state of the block being scanned
          nblocks,  \* finished blocks
          nrows,    \* rows consumed
          hist      \* [g -> Seq(value)]  selected values per group, row order

vars == <<kernel, single, merged, cur, nblocks, nrows, hist>>

Groups == 0 .. NG - 1
Codes  == Groups \cup {-1}
ValsN  == Vals \cup {Null}

EmptyAll(k) == [g \in Groups |-> EmptyP(k)]

MergeP(k, p, q) == IF MergeUsesCount THEN Merge(k, p, q) ELSE MergeDev(k, p, q, IsFloat)

Init == /\ kernel \in KernelSet
        /\ single = EmptyAll(kernel)
        /\ merged = EmptyAll(kernel)
        /\ cur = EmptyAll(kernel)
        /\ nblocks = 0
        /\ nrows = 0
        /\ hist = [g \in Groups |-> <<>>]

(* One iteration of the kernel loop on a *selected* row (c, v).             *)
(* `if key < 0: continue`                                                    *)
RowStep(c, v) ==
  /\ nrows' = nrows + 1
  /\ IF c < 0
     THEN UNCHANGED <<single, cur, hist>>
     ELSE /\ single' = [single EXCEPT ![c] = Step(kernel, @, v)]
          /\ cur' = [cur EXCEPT ![c] = Step(kernel, @, v)]
          /\ hist' = [hist EXCEPT ![c] = Append(@, v)]
  /\ UNCHANGED <<kernel, merged, nblocks>>

(* End of a block: its per-group partials are merged into the running       *)
(* combination.  The first block is taken as is (combined = chunks[0]).     *)
BlockStep ==
  /\ merged' = IF nblocks = 0 THEN cur
               ELSE [g \in Groups |-> MergeP(kernel, merged[g], cur[g])]
  /\ cur' = EmptyAll(kernel)
  /\ nblocks' = nblocks + 1
  /\ UNCHANGED <<kernel, single, nrows, hist>>

Row == /\ nrows < MaxRows
       /\ \E c \in Codes, v \in ValsN : RowStep(c, v)
NewBlock == /\ nblocks < MaxBlocks - 1
            /\ BlockStep

Next == Row \/ NewBlock
Spec == Init /\ [][Next]_vars

(* What the block-wise computation would return if the input ended here.    *)
BlockResult(g) ==
  LET fin == IF nblocks = 0 THEN cur[g] ELSE MergeP(kernel, merged[g], cur[g])
  IN  ResultOf(kernel, fin)
SingleResult(g) == ResultOf(kernel, single[g])

-----------------------------------------------------------------------------
(* Properties (C04).                                                         *)
SingleIsDef     == \A g \in Groups : SingleResult(g) = Def(kernel, hist[g])
BlocksAreSingle == \A g \in Groups : BlockResult(g) = SingleResult(g)
CountIsDef      == \A g \in Groups :
                     kernel \in {"sum", "sumsq", "min", "max", "first", "count"}
                       => single[g].c = DefCount(hist[g])
(* a partial whose count is positive holds data (what makes Merge sound)    *)
CountGuardsAcc  == \A g \in Groups :
                     (kernel \in {"min", "max", "first"} /\ single[g].c > 0)
                       => ~IsNull(single[g].a)
(* rows with a negative code never touch any state (C06 at kernel level)    *)
NullKeyStutters == [][\A g \in Groups : (nrows' = nrows + 1 /\ hist' = hist)
                          => (single' = single /\ cur' = cur)]_vars

-----------------------------------------------------------------------------
(* Row selection: "boolean, slice and positional masks select rows the way  *)
(* array indexing would".  Positions are 1-based here (TLA+ sequences);     *)
(* the trace carries 0-based Python values.                                  *)
None == -997    \* Python None in a slice field

(* Python slice.indices(n) for step > 0 and step < 0                         *)
ClampLo(x, n) == IF x < 0 THEN (IF x + n < 0 THEN 0 ELSE x + n) ELSE (IF x > n THEN n ELSE x)
ClampNeg(x, n) == IF x < 0 THEN (IF x + n < 0 THEN -1 ELSE x + n) ELSE (IF x >= n THEN n - 1 ELSE x)

RECURSIVE RangeSeq(_, _, _)
RangeSeq(a, b, st) == \* Python range(a, b, st) as a sequence
  IF (st > 0 /\ a >= b) \/ (st < 0 /\ a <= b) THEN <<>>
  ELSE <<a>> \o RangeSeq(a + st, b, st)

SliceIdx0(n, start, stop, step) == \* 0-based positions selected by slice(start, stop, step)
  LET st == IF step = None THEN 1 ELSE step
  IN  IF st > 0
      THEN LET a == IF start = None THEN 0 ELSE ClampLo(start, n)
               b == IF stop = None THEN n ELSE ClampLo(stop, n)
           IN  RangeSeq(a, b, st)
      ELSE LET a == IF start = None THEN n - 1 ELSE ClampNeg(start, n)
               b == IF stop = None THEN -1 ELSE ClampNeg(stop, n)
           IN  RangeSeq(a, b, st)

RECURSIVE BoolIdx0(_, _)
BoolIdx0(bits, i) == \* 0-based positions of the TRUE entries, ascending
  IF i > Len(bits) THEN <<>>
  ELSE (IF bits[i] = 1 THEN <<i - 1>> ELSE <<>>) \o BoolIdx0(bits, i + 1)

(* positional mask: negative positions count from the end (NumPy / numba    *)
(* wraparound); a position outside [-n, n) is an error.                      *)
PosOk(n, pos) == \A j \in 1..Len(pos) : pos[j] >= -n /\ pos[j] < n
PosIdx0(n, pos) == [j \in 1..Len(pos) |-> IF pos[j] < 0 THEN pos[j] + n ELSE pos[j]]

(* mask record: [k |-> "none" | "bool" | "slice" | "pos", ...]              *)
Sel0(n, m) ==
  CASE m.k = "none"  -> [j \in 1..n |-> j - 1]
    [] m.k = "bool"  -> BoolIdx0(m.b, 1)
    [] m.k = "slice" -> SliceIdx0(n, m.s[1], m.s[2], m.s[3])
    [] m.k = "pos"   -> PosIdx0(n, m.p)
=============================================================================
