--------------------------- MODULE Trace_GBChunked ---------------------------
(***************************************************************************)
(* Trace validation of reductions over chunked group keys against the       *)
(* GBChunked machine.  One trace = one real GroupBy.<reduction>(values,     *)
(* mask, observed_only=False) call on chunk-wise factorized (or pre-chunked *)
(* arrow) keys:                                                              *)
(*   T.kernel, T.keys, T.vals, T.mask   the logical call (label ids / Null) *)
(*   T.klens    chunk lengths of the object's code array                     *)
(*   T.rep      "pointers" | "global" (after _unify_group_key_chunks)        *)
(*   T.labels   the object's result index (label ids, in its order)          *)
(*   T.pieces   hook H6 (ChunkPartials): per piece of the (sliced) code      *)
(*              array its length, the pointer table the library used         *)
(*              (1-based positions in T.labels) and the partial result /     *)
(*              count arrays the kernel returned for it                      *)
(*   T.final    what the call returned, per label of T.labels                *)
(*   T.kcount   GroupBy.count_ikey(mask) per label of T.labels               *)
(* The trace is replayed through Factorize, Resolve, ChunkReduce(i),        *)
(* MergePiece; every logged partial is compared with the machine's partial   *)
(* for the same (piece, label), the returned values with the merged state.   *)
(* CheckInternal = FALSE compares only what the public call returned.        *)
(***************************************************************************)
EXTENDS GBChunked, Json, IOUtils, TLCExt

CONSTANT CheckInternal
Traces == JsonDeserialize(IOEnv.TRACE_FILE)
VARIABLES tid, l
T == Traces[tid]

IsPerm(a, b) == /\ Len(a) = Len(b)
                /\ \A x \in 1..Len(a) : IndexOf(b, a[x]) > 0
                /\ \A x, y \in 1..Len(a) : x # y => a[x] # a[y]

TraceInit ==
  /\ tid \in 1..Len(Traces)
  /\ l = 0
  /\ kernel = Traces[tid].kernel /\ keys = Traces[tid].keys /\ vals = Traces[tid].vals
  /\ klens = Traces[tid].klens /\ rep = Traces[tid].rep /\ mask = Traces[tid].mask
  /\ pc = "start"
  /\ ldict = <<>> /\ lcodes = <<>> /\ labels = <<>> /\ ptr = <<>>
  /\ first = 0 /\ pieces = <<>> /\ partial = <<>> /\ todo = {} /\ combined = <<>> /\ nmerged = 0 /\ oob = FALSE
  /\ calls = 1 /\ tout = <<>>

TFactorize == /\ l = 0 /\ T.out = "ok"
              /\ SumTo(klens, Len(klens)) = Len(keys) /\ Len(vals) = Len(keys)
              /\ IsPerm(T.labels, UnionOfDicts)
              /\ FactorizeWith(T.labels)
              /\ l' = 1 /\ UNCHANGED tid
TUnifyPos == /\ l = 1 /\ UnifyForPositions /\ UNCHANGED <<tid, l>>       \* (silent: happens inside the call, before the mask is resolved)
TResolve == /\ l = 1 /\ Resolve
            /\ (CheckInternal /\ T.internal = 1) =>
                 /\ Len(T.pieces) = Len(pieces')
                 /\ \A i \in 1..Len(pieces') : T.pieces[i].len = pieces'[i].hi - pieces'[i].lo + 1
            /\ l' = 2 /\ UNCHANGED tid

ObsPiece(i) ==
  LET L == T.pieces[i]
      p == pieces[i]
  IN  /\ Len(L.res) = Len(L.ptr) /\ Len(L.cnt) = Len(L.ptr)
      /\ \A g \in 1..Len(L.ptr) :
           /\ L.ptr[g] \in 1..Len(labels)
           /\ LET sp == PieceFoldLabel(p, labels[L.ptr[g]], p.lo, EmptyP(kernel))
              IN  /\ L.cnt[g] = sp.c
                  /\ (sp.c > 0 \/ SumLike(kernel)) => L.res[g] = ResultOf(kernel, sp)
      /\ \A g2 \in 1..Len(labels) :
           PieceFoldLabel(p, labels[g2], p.lo, EmptyP(kernel)).c > 0 => \E g \in 1..Len(L.ptr) : L.ptr[g] = g2

TChunk == /\ l >= 2 /\ pc = "reduce"
          /\ LET i == l - 1 IN
               /\ ChunkReduce(i)
               /\ (CheckInternal /\ T.internal = 1) => ObsPiece(i)
          /\ l' = l + 1 /\ UNCHANGED tid
TMerge == /\ pc = "merge" /\ MergePiece /\ l' = l + 1 /\ UNCHANGED tid

DefCountSel(r) == IF kernel = "size" THEN Len(GroupVals(keys[r])) ELSE DefCount(GroupVals(keys[r]))
FinalOk == /\ Len(T.final) = Len(labels)
           /\ \A g \in 1..Len(labels) :
                LET d == Def(kernel, GroupVals(labels[g]))
                    n == IF kernel = "size" THEN Len(GroupVals(labels[g])) ELSE DefCount(GroupVals(labels[g]))
                IN  /\ ResultOf(kernel, combined[g]) = d            \* the machine agrees with the definition
                    /\ (n > 0 \/ SumLike(kernel) \/ T.nonull = 0) => T.final[g] = d
(* GroupBy.count_ikey(mask): rows selected per label (same Resolve, kernel "size") *)
KeyCountOk == /\ Len(T.kcount) = Len(labels)
              /\ \A g \in 1..Len(labels) : T.kcount[g] = Len(GroupVals(labels[g]))
(* transform=True (T.tout: the value shown at every row): replayed through Broadcast *)
HasT == "tout" \in DOMAIN T
TBroadcast == /\ HasT /\ pc = "done" /\ tout = <<>> /\ Broadcast /\ l' = l + 1 /\ UNCHANGED tid
ToutOk == HasT => /\ Len(T.tout) = Len(keys) /\ (Len(keys) = 0 \/ tout # <<>>)
                  /\ \A r \in 1..Len(keys) :      \* (dtypes without an in-band null: only rows whose group saw a value are judged)
                        (T.nonull = 0 \/ SumLike(kernel) \/ (keys[r] # Null /\ DefCountSel(r) > 0)) => T.tout[r] = tout[r]
TDone == /\ pc = "done" /\ ~oob /\ (Len(T.final) > 0 \/ ~HasT => FinalOk) /\ KeyCountOk /\ ToutOk
         /\ PrintT(<<"ACCEPT", tid>>)
         /\ pc' = "accepted" /\ l' = l + 1
         /\ UNCHANGED <<tid, hvars, gvars, first, pieces, partial, todo, combined, nmerged, oob>>

TraceNext == TFactorize \/ TUnifyPos \/ TResolve \/ TChunk \/ TMerge \/ TBroadcast \/ TDone
TraceSpec == TraceInit /\ [][TraceNext]_<<vars, tid, l>>
=============================================================================
