--------------------------- MODULE Trace_GBHelpers ---------------------------
(***************************************************************************)
(* Trace validation for the stand-alone helpers (C20).  One trace: one real *)
(* call.  T.kind:                                                            *)
(*  "nan"    [fn, arr, t, ddof?, res]      nanops.nansum/nanmean/nanmin/... *)
(*           replayed through GBNanops' block machine (one Task per block)  *)
(*  "dot"    [a (rows), b, res]             util.nb_dot                       *)
(*  "bools"  [rows (0/1), labelsets]        util.bools_to_categorical         *)
(*  "cut"    [vals, bins, isint, assigned (per value: [lo, hi] printed      *)
(*           bounds, lo = -Inf / hi = Inf as None, or "none")]               *)
(***************************************************************************)
EXTENDS GBNanops, Json, IOUtils, TLCExt
Traces == JsonDeserialize(IOEnv.TRACE_FILE)
VARIABLES tid, l
T == Traces[tid]
None == -997

BaseFn(f) == CASE f \in {"sum", "mean"} -> "sum" [] f \in {"var", "std"} -> "sumsq"
               [] f = "count" -> "count" [] f = "min" -> "min" [] f = "max" -> "max"

TraceInit == /\ tid \in 1..Len(Traces)
             /\ IF Traces[tid].kind = "nan"
                THEN /\ fn = BaseFn(Traces[tid].fn) /\ arr = Traces[tid].arr /\ nthreads = Traces[tid].t
                     /\ blocks = BlocksOf(Traces[tid].arr, Traces[tid].t)
                     /\ partial = [j \in 1..Traces[tid].t |-> Null]
                ELSE /\ fn = "sum" /\ arr = <<>> /\ nthreads = 1 /\ blocks = <<<<>>>> /\ partial = <<Null>>
             /\ done = {} /\ result = Null /\ pc = "blocks" /\ l = 1

TraceTask == /\ T.kind = "nan" /\ l <= nthreads /\ Task(l) /\ l' = l + 1 /\ UNCHANGED tid
TraceCombine == /\ T.kind = "nan" /\ l = nthreads + 1 /\ Combine /\ l' = l + 1 /\ UNCHANGED tid

NanOk ==
  LET a == T.arr
      n == DefCount(a)
  IN  CASE T.fn \in {"sum", "count", "min", "max"} -> T.res = result
        [] T.fn = "mean" -> T.res = (IF n = 0 THEN NullRat ELSE Rat(result, n))      \* result = sum
        [] T.fn \in {"var", "std"} -> T.res = DefVarRat(a, T.ddof)                      \* std shipped squared
RECURSIVE DotRow(_, _, _)
DotRow(row, b, j) == IF j > Len(b) THEN 0 ELSE row[j] * b[j] + DotRow(row, b, j + 1)
DotOk == /\ Len(T.res) = Len(T.a) /\ \A r \in 1..Len(T.a) : T.res[r] = DotRow(T.a[r], T.b, 1)
BoolsOk == /\ Len(T.labelsets) = Len(T.rows)
           /\ \A r \in 1..Len(T.rows) :
                {T.labelsets[r][j] : j \in 1..Len(T.labelsets[r])} = {c \in 1..Len(T.rows[r]) : T.rows[r][c] = 1}
CutOk == /\ Len(T.assigned) = Len(T.vals)
         /\ \A j \in 1..Len(T.vals) :
              IF T.vals[j] = Null THEN T.assigned[j] = <<None, None, 0>>       \* nulls to no bin
              ELSE LET lo == T.assigned[j][1]
                       hi == T.assigned[j][2]
                   IN  /\ T.assigned[j][3] = 1
                       /\ (hi = None \/ T.vals[j] <= hi)
                       /\ (lo = None \/ (IF T.isint = 1 THEN T.vals[j] >= lo ELSE T.vals[j] > lo))
TraceReturn == /\ IF T.kind = "nan" THEN l = nthreads + 2 ELSE l = 1
               /\ T.out = "ok"
               /\ CASE T.kind = "nan" -> NanOk [] T.kind = "dot" -> DotOk [] T.kind = "bools" -> BoolsOk [] T.kind = "cut" -> CutOk
               /\ PrintT(<<"ACCEPT", tid>>)
               /\ l' = 99 /\ UNCHANGED <<nvars, tid>>
TraceSpec == TraceInit /\ [][TraceTask \/ TraceCombine \/ TraceReturn]_<<nvars, tid, l>>
TraceInv == ResultIsDef
=============================================================================
