------------------------------ MODULE GBMemory ------------------------------
(***************************************************************************)
(* Who may write which buffer (C19): the caller's inputs, the logical state *)
(* of a grouping, its lazily filled caches, and the results handed out.     *)
(*                                                                           *)
(* Anchors: numba._build_target_for_groupby, _rolling_*_1d,                 *)
(* _cumulative_reduce (fresh output per call); util._val_to_numpy,          *)
(* _cast_timestamps_to_ints, core._convert_arr_to_pandas_series(copy=False) *)
(* (zero-copy views of inputs); factorization._combine_factorizations,      *)
(* factorize_1d (in-place reuse of code arrays); core.GroupBy cached        *)
(* properties ikey_count, _group_sort_indexer, groups, key_count.           *)
(*                                                                           *)
(* A buffer is *dirty* when its content differs from what a fresh grouping  *)
(* built from the caller's original inputs would hold.  An operation reads  *)
(* buffers, fills caches (a cache filled from a dirty source is dirty) and  *)
(* returns a result, which may be a writable alias of buffers.  The caller  *)
(* may later write through any result it holds.                             *)
(*                                                                           *)
(* Intended mechanism: AliasDev = WriteDev = {} (every result is fresh, no   *)
(* operation writes anything but fresh arrays and cache fills).  Deviations *)
(* are named <<operation class, buffer>> pairs.                             *)
(***************************************************************************)
EXTENDS Integers, Sequences, FiniteSets

CONSTANTS MaxSteps,
          AliasDev,    \* <<op, b>> : the result of op is a writable alias of buffer b
          WriteDev,    \* <<op, b>> : op writes into buffer b while it runs
          EnvCorrupts  \* TRUE only for binding runs: the harness itself overwrites a filled cache

NoDev == {}
GroupsAliasDev == {<<"groups", "indexer">>, <<"groups", "groups">>, <<"keycount", "keycount">>}
ViewDev == {<<"select", "values">>, <<"reduce", "counts">>}
InPlaceDev == {<<"factorize", "keys">>, <<"transform", "codes">>}

Inputs == {"keys", "values", "mask", "times"}
Grouping == {"codes", "labels"}                              \* logical state of the grouping
Derived == {"counts", "indexer", "groups", "keycount"}       \* lazily filled caches
Buffers == Inputs \cup Grouping \cup Derived

(* operation classes (the concrete methods of each class are listed in      *)
(* gbverif/drivers/memory.py)                                               *)
Ops == {"reduce", "transform", "rowwise", "layout", "select", "apply", "groups",
        "keycount", "counts", "margins", "timed", "factorize"}

(* what a cache is computed from, in fill order                              *)
FillOrder == <<"counts", "indexer", "groups", "keycount">>
Source == [counts |-> {"codes"}, indexer |-> {"codes", "counts", "labels"},
           groups |-> {"indexer", "counts", "labels"}, keycount |-> {"counts", "labels"}]

Fills == [reduce |-> {"counts"}, transform |-> {}, rowwise |-> {}, layout |-> {"counts", "indexer"},
          select |-> {}, apply |-> {"counts", "indexer"}, groups |-> {"counts", "indexer", "groups"},
          keycount |-> {"counts", "keycount"}, counts |-> {}, margins |-> {"counts"}, timed |-> {},
          factorize |-> {}]

Reads == [reduce |-> {"values", "mask", "codes", "labels", "counts"},
          transform |-> {"values", "mask", "codes"},
          rowwise |-> {"values", "mask", "codes"},
          layout |-> {"values", "mask", "codes", "labels", "counts", "indexer"},
          select |-> {"values", "codes"},
          apply |-> {"values", "mask", "codes", "labels", "counts", "indexer"},
          groups |-> {"labels", "counts", "indexer", "groups"},
          keycount |-> {"labels", "counts", "keycount"},
          counts |-> {"mask", "codes"},
          margins |-> {"values", "mask", "codes", "labels", "counts"},
          timed |-> {"values", "mask", "codes", "times"},
          factorize |-> {"keys"}]

VARIABLES dirty, filled, results, steps
mvars == <<dirty, filled, results, steps>>

(* the group listing is made of views of the group-sort indexer: whoever writes one writes the other *)
Linked(b) == IF b = "indexer" THEN {"indexer", "groups"} ELSE IF b = "groups" THEN {"groups", "indexer"} ELSE {b}
LinkedAll(S) == UNION {Linked(b) : b \in S}

AllowedAlias(op) == {b \in Buffers : <<op, b>> \in AliasDev}
AllowedWrites(op) == {b \in Buffers : <<op, b>> \in WriteDev}

(* fill the caches of `new` in order; a cache filled from a dirty source is dirty *)
RECURSIVE Propagate(_, _, _)
Propagate(d, new, i) ==
  IF i > Len(FillOrder) THEN d
  ELSE LET c == FillOrder[i]
       IN  Propagate(IF c \in new /\ Source[c] \cap d # {} THEN d \cup {c} ELSE d, new, i + 1)

Init == /\ dirty = {} /\ filled = {} /\ results = <<>> /\ steps = 0

Call(op, al, wr) ==
  /\ wr \subseteq AllowedWrites(op)
  /\ al \subseteq AllowedAlias(op)
  /\ LET new == Fills[op] \ filled
         d2 == Propagate(dirty \cup wr, new, 1)
     IN  /\ dirty' = d2
         /\ filled' = filled \cup Fills[op]
         /\ al \cap Derived \subseteq filled \cup Fills[op]
         /\ results' = Append(results, [op |-> op, alias |-> al, clean |-> (Reads[op] \cap d2 = {})])
  /\ steps' = steps + 1

(* the caller writes through result i (every writable array it can reach)   *)
Mutate(i) ==
  /\ i \in 1..Len(results)
  /\ dirty' = dirty \cup (LinkedAll(results[i].alias) \cap (Inputs \cup Grouping \cup filled))
  /\ UNCHANGED <<filled, results>>
  /\ steps' = steps + 1

(* environment action of the binding runs: the harness overwrites a filled cache; *)
(* what the real operations then return shows what they read (Reads, Source)    *)
Corrupt(b) ==
  /\ EnvCorrupts
  /\ b \in filled
  /\ dirty' = dirty \cup (Linked(b) \cap filled)
  /\ UNCHANGED <<filled, results>>
  /\ steps' = steps + 1

DoCall(op) == /\ steps < MaxSteps
              /\ \E al \in SUBSET AllowedAlias(op), wr \in SUBSET AllowedWrites(op) : Call(op, al, wr)
DoMutate(i) == steps < MaxSteps /\ Mutate(i)
DoCorrupt(b) == steps < MaxSteps /\ Corrupt(b)
Next == \/ \E op \in Ops : DoCall(op)
        \/ \E i \in 1..MaxSteps : DoMutate(i)
        \/ \E b \in Derived : DoCorrupt(b)
Spec == Init /\ [][Next]_mvars

-----------------------------------------------------------------------------
InputsIntact == dirty \cap Inputs = {}
GroupingIntact == dirty \cap Grouping = {}
Repeatable == \A i \in 1..Len(results) : results[i].clean      \* every call returned what a fresh grouping returns
CachesIntact == dirty \cap Derived = {}
DirtyMonotone == [][dirty \subseteq dirty']_mvars
=============================================================================
