---------------------------- MODULE Trace_GBShape ----------------------------
(***************************************************************************)
(* C11, shape clauses: what kind of object a reduction returns and how it   *)
(* is labelled, as a function of how keys and values were given.            *)
(*  T = [nvals, single1d, vnames, knames, rkind, rname, ridxnames, rcols]    *)
(* (names are strings, "" = unnamed).  The *contents* of every column are   *)
(* validated separately against GBCore (one Trace_GBCore trace per column:  *)
(* "each column identical to the result for that input alone").             *)
(* Anchors: core._maybe_squeeze_to_1d, _col_names_from_value_names,         *)
(* util.convert_data_to_arr_list_and_keys, GroupBy.__init__ (index names).  *)
(***************************************************************************)
EXTENDS Integers, Sequences, Json, IOUtils, TLC, TLCExt
Traces == JsonDeserialize(IOEnv.TRACE_FILE)
VARIABLES tid, tpc
T == Traces[tid]
TraceInit == tid \in 1..Len(Traces) /\ tpc = "call"

(* one index level per key, named after the keys *)
IndexOk == /\ Len(T.ridxnames) = Len(T.knames)
           /\ \A j \in 1..Len(T.knames) : T.ridxnames[j] = T.knames[j]
(* a single 1-D values input gives a Series named like the input *)
SeriesOk == T.rkind = "series" /\ T.rname = T.vnames[1]
(* a collection / frame / 2-D array gives a DataFrame with one column per input, in input order;
   where an input carries a name the column labelled with it is at that position *)
FrameOk == /\ T.rkind = "frame"
           /\ Len(T.rcols) = T.nvals
           /\ \A j \in 1..T.nvals : T.vnames[j] = "" \/ T.rcols[j] = T.vnames[j]
Ok == /\ T.out = "ok" /\ IndexOk
      /\ IF T.single1d = 1 THEN SeriesOk ELSE FrameOk
TraceReturn == /\ tpc = "call" /\ Ok /\ PrintT(<<"ACCEPT", tid>>) /\ tpc' = "done" /\ UNCHANGED tid
TraceSpec == TraceInit /\ [][TraceReturn]_<<tid, tpc>>
=============================================================================
