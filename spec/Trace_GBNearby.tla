--------------------------- MODULE Trace_GBNearby ---------------------------
(***************************************************************************)
(* Trace validation of group_nearby_members.  One trace: one real call;     *)
(* every row is one RowNearby action and the returned sub-group of the row  *)
(* must be the machine's.                                                    *)
(*   T = [maxdiff, keys, vals, res]   (keys: group ids or Null)              *)
(***************************************************************************)
EXTENDS GBNearby, Json, IOUtils, TLCExt, TLC
Traces == JsonDeserialize(IOEnv.TRACE_FILE)
VARIABLES tid, l
tvars == <<nvars, tid, l>>
T == Traces[tid]

TraceInit == /\ tid \in 1..Len(Traces)
             /\ NearbyInit(Traces[tid].maxdiff)
             /\ l = 1
TraceRow == /\ l <= Len(T.keys)
            /\ Len(T.res) = Len(T.keys) /\ Len(T.vals) = Len(T.keys)
            /\ (T.keys[l] = Null \/ T.keys[l] \in Groups)
            /\ RowNearby(T.keys[l], T.vals[l])
            /\ out'[l] = T.res[l]
            /\ l' = l + 1
            /\ UNCHANGED tid
TraceDone == /\ l = Len(T.keys) + 1
             /\ Len(T.res) = Len(T.keys)
             /\ PrintT(<<"ACCEPT", tid>>)
             /\ l' = l + 1
             /\ UNCHANGED <<nvars, tid>>
TraceSpec == TraceInit /\ [][TraceRow \/ TraceDone]_tvars
=============================================================================
