---------------------------- MODULE Trace_GBCore ----------------------------
(***************************************************************************)
(* Trace validation of GroupBy reductions at API level (C01, C03, C05, C06, *)
(* C07, C11, C12, C13).  One trace = one real call                          *)
(*      GroupBy(keys, sort=..).<op>(values, mask=.., transform=..,          *)
(*                                  observed_only=..)                        *)
(* replayed through GBCore's actions: FactStepC for every row (dictionary), *)
(* RedStepC for every selected row in selection order, then Return compares *)
(* the projected pandas/polars result with the machine's state.             *)
(*                                                                           *)
(* T = [op, keys, vals, mask, tf, oo, sort, rank, seed, nonull, out,         *)
(*      labels, res]                                                         *)
(***************************************************************************)
EXTENDS GBCore, Json, IOUtils, TLCExt

CONSTANTS Diag,
          PosMaskAsSet   \* deviation (known finding): on chunked keys a positional mask is turned into a
                         \* boolean one, i.e. repeats and order are lost

Traces == JsonDeserialize(IOEnv.TRACE_FILE)

VARIABLES tid, i, pc
tvars == <<cvars, tid, i, pc>>

T == Traces[tid]
RatOps == {"mean", "var", "std"}      \* results shipped as exact rationals (std: its square)
KernelOf(op) == IF op \in RatOps THEN "sum" ELSE op
N == Len(T.keys)
MaskOk == IF T.mask.k = "pos" THEN PosOk(N, T.mask.p)
          ELSE IF T.mask.k = "bool" THEN Len(T.mask.b) = N
          ELSE TRUE
RECURSIVE AscOf(_, _)
AscOf(S, x) == IF S = {} THEN <<>> ELSE LET m == CHOOSE y \in S : \A z \in S : y <= z IN <<m>> \o AscOf(S \ {m}, x)
SelT == IF PosMaskAsSet /\ T.mask.k = "pos" /\ PosOk(N, T.mask.p)
        THEN LET s == PosIdx0(N, T.mask.p) IN AscOf({s[j] : j \in 1..Len(s)}, 0)
        ELSE Sel0(N, T.mask)

TraceInit ==
  /\ tid \in 1 .. Len(Traces)
  /\ kernel = KernelOf(Traces[tid].op)
  /\ dict = Traces[tid].seed          \* declared categories (categorical / boolean keys), else <<>>
  /\ part = [g \in 1..Len(Traces[tid].seed) |-> EmptyP(kernel)]
  /\ ksz = [g \in 1..Len(Traces[tid].seed) |-> 0]
  /\ rowlog = <<>>
  /\ i = 0
  /\ pc = "fact"

TraceFact ==
  /\ pc = "fact" /\ i < N
  /\ FactStepC(T.keys[i + 1])
  /\ i' = i + 1
  /\ UNCHANGED <<tid, pc>>

TraceFactDone ==
  /\ pc = "fact" /\ i = N
  /\ pc' = IF MaskOk THEN "red" ELSE "bad"
  /\ i' = 0
  /\ UNCHANGED <<cvars, tid>>

TraceRed ==
  /\ pc = "red" /\ i < Len(SelT)
  /\ LET r == SelT[i + 1] + 1 IN RedStepC(T.keys[r], T.vals[r])
  /\ i' = i + 1
  /\ UNCHANGED <<tid, pc>>

(* scaled replays: every row of the small input was repeated T.mult times in the real call *)
Mult == IF "mult" \in DOMAIN T THEN T.mult ELSE 1
Scaled(x) == IF T.op \in {"size", "count", "sum"} THEN x * Mult ELSE x
GVal(g) == IF T.op = "mean" THEN MeanOf(part[g].a, part[g].c)
           ELSE IF T.op \in {"var", "std"} THEN DefVarRat(GroupValsH(dict[g]), T.ddof)
           ELSE Scaled(ValueOf(g))
EmptyVal == IF T.op \in RatOps THEN NullRat ELSE ResultOf(kernel, EmptyP(kernel))
DontCareG(g) == T.nonull = 1 /\ ~SumLike(kernel) /\ part[g].c = 0

ExpListed == Listed(T.oo = 1, T.sort = 1, T.rank)
ExpLabels == [j \in 1..Len(ExpListed) |-> dict[ExpListed[j]]]
ExpVals   == [j \in 1..Len(ExpListed) |-> GVal(ExpListed[j])]

(* transform: one value per input row, in input order                        *)
ExpRow(r) == LET key == T.keys[r] IN
             IF KeyIsNull(key) THEN EmptyVal ELSE GVal(IndexOf(dict, key))
RowOk(r) == LET key == T.keys[r]
                g == IndexOf(dict, key)
            IN  IF KeyIsNull(key) \/ ksz[g] = 0
                THEN \/ T.res[r] = EmptyVal          \* neutral ...
                     \/ T.res[r] = (IF T.op \in RatOps THEN NullRat ELSE Null)   \* ... or null marker
                     \/ T.nonull = 1
                ELSE DontCareG(g) \/ T.res[r] = GVal(g)

(* sums under a based embedding are shipped as (hi, lo) limbs: hi = number of values summed *)
HiOk == IF "reshi" \notin DOMAIN T THEN TRUE
        ELSE IF Len(T.reshi) # (IF T.tf = 1 THEN N ELSE Len(ExpListed)) THEN FALSE   \* malformed: rejected, not an error
        ELSE IF T.tf = 1
        THEN \A r \in 1..N : IF KeyIsNull(T.keys[r]) THEN TRUE
                              ELSE T.reshi[r] = part[IndexOf(dict, T.keys[r])].c
        ELSE \A j \in 1..Len(ExpListed) : T.reshi[j] = part[ExpListed[j]].c

ResOk ==
  /\ T.out = "ok"
  /\ HiOk
  /\ (IF "kindok" \in DOMAIN T THEN T.kindok = 1 ELSE TRUE)   \* container follows the input (C07)
  /\ (IF "idxok" \in DOMAIN T THEN T.idxok = 1 ELSE TRUE)     \* the input's index is carried (C07)
  /\ IF T.tf = 1
     THEN /\ Len(T.res) = N
          /\ \A r \in 1..N : RowOk(r)
     ELSE /\ T.labels = ExpLabels
          /\ Len(T.res) = Len(ExpVals)
          /\ \A j \in 1..Len(ExpVals) : DontCareG(ExpListed[j]) \/ T.res[j] = ExpVals[j]

TraceReturn ==
  /\ pc = "red" /\ i = Len(SelT)
  /\ IF Diag
     THEN PrintT(<<"EXPECT", tid, IF T.tf = 1 THEN [r \in 1..N |-> ExpRow(r)] ELSE <<ExpLabels, ExpVals>>>>)
     ELSE ResOk /\ PrintT(<<"ACCEPT", tid>>)
  /\ pc' = "done"
  /\ UNCHANGED <<cvars, tid, i>>

TraceRaise ==
  /\ pc = "bad"
  /\ IF Diag THEN PrintT(<<"EXPECT", tid, "raise">>)
     ELSE T.out = "raise" /\ PrintT(<<"ACCEPT", tid>>)
  /\ pc' = "done"
  /\ UNCHANGED <<cvars, tid, i>>

TraceNext == TraceFact \/ TraceFactDone \/ TraceRed \/ TraceReturn \/ TraceRaise
TraceSpec == TraceInit /\ [][TraceNext]_tvars

(* the model's invariants, evaluated in every state of every trace           *)
TraceInv == /\ \A g \in 1..Len(dict) : ValueOf(g) = Def(kernel, GroupValsH(dict[g]))
            /\ NoNullLabel
=============================================================================
