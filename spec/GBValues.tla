------------------------------ MODULE GBValues ------------------------------
(***************************************************************************)
(* Abstract value domain and scalar reduction algebra of groupby-lib.       *)
(*                                                                           *)
(* Anchors: groupby_lib/util.py  is_null, _null_value_for_numpy_type;       *)
(*          groupby_lib/groupby/numba.py  ScalarFuncs.*, reduce_array_pair, *)
(*          _build_target_for_groupby.                                       *)
(*                                                                           *)
(* A *partial* is the pair (accumulator, count) that every group kernel     *)
(* threads through the rows of one block: [a |-> acc, c |-> count].          *)
(* Step  = ScalarFuncs.<kernel>(acc, value, count)                           *)
(* Merge = reduce_array_pair(acc_so_far, acc_of_block, reducer, counts)      *)
(* Def*  = the per-group *definition* over the whole sequence of values      *)
(*         (what the properties C01/C04 state).                              *)
(***************************************************************************)
EXTENDS Integers, Sequences, FiniteSets

Null == -999          \* NaN / NaT / int64-min, by dtype class
Junk == -998          \* "some value outside the abstract domain" (projection)
IsNull(v) == v = Null

Kernels == {"size", "count", "sum", "sumsq", "min", "max", "first", "last"}
SumLike(k) == k \in {"size", "count", "sum", "sumsq"}

(* _build_target_for_groupby: 0 for sums / counts, the null of the dtype    *)
(* otherwise; the count array starts at 0.                                  *)
EmptyP(k) == [a |-> IF SumLike(k) THEN 0 ELSE Null, c |-> 0]

Min2(x, y) == IF x <= y THEN x ELSE y
Max2(x, y) == IF x >= y THEN x ELSE y

(* ScalarFuncs.<kernel>(cur, next, count) -> (new, count')                  *)
Step(k, p, v) ==
  CASE k = "size"  -> [a |-> p.c + 1, c |-> p.c + 1]                    \* ScalarFuncs.count
    [] k = "count" -> IF IsNull(v) THEN [a |-> p.c, c |-> p.c]          \* nancount
                      ELSE [a |-> p.c + 1, c |-> p.c + 1]
    [] k = "sum"   -> IF IsNull(v) THEN p                                \* nansum
                      ELSE IF p.c > 0 THEN [a |-> p.a + v, c |-> p.c + 1]
                      ELSE [a |-> v, c |-> 1]
    [] k = "sumsq" -> IF IsNull(v) THEN p                                \* nansum_squares
                      ELSE IF p.c > 0 THEN [a |-> p.a + v * v, c |-> p.c + 1]
                      ELSE [a |-> v * v, c |-> 1]
    [] k = "min"   -> IF IsNull(v) THEN p                                \* nanmin
                      ELSE IF p.c > 0 THEN [a |-> Min2(p.a, v), c |-> p.c + 1]
                      ELSE [a |-> v, c |-> 1]
    [] k = "max"   -> IF IsNull(v) THEN p                                \* nanmax
                      ELSE IF p.c > 0 THEN [a |-> Max2(p.a, v), c |-> p.c + 1]
                      ELSE [a |-> v, c |-> 1]
    [] k = "first" -> IF IsNull(v) THEN p
                      ELSE IF p.c > 0 THEN [a |-> p.a, c |-> p.c + 1]
                      ELSE [a |-> v, c |-> 1]
    [] k = "last"  -> IF IsNull(v) THEN [a |-> p.a, c |-> p.c + 1]      \* sic: count moves on a null
                      ELSE [a |-> v, c |-> p.c + 1]

(* The reducer used to merge block results:                                 *)
(* _group_func_wrap merges sums/counts with ScalarFuncs.sum and the others   *)
(* with the kernel's own scalar function; GroupBy.                           *)
(* _apply_gb_func_across_chunked_group_keys uses the nan-variant.  Both are  *)
(* reduce_array_pair(x = merged so far, y = block result, counts = cnt).     *)
(*   cnt = count accumulated so far when the merge passes `counts`           *)
(*   cnt = 1                        when it does not (deviation D5).         *)
MergeAcc(k, x, y, cnt) ==
  IF SumLike(k) THEN (IF cnt > 0 THEN x + y ELSE y)                      \* ScalarFuncs.sum
  ELSE IF IsNull(y) THEN x                                                \* nan* / first / last skip a null
  ELSE CASE k = "min"   -> IF cnt > 0 THEN Min2(x, y) ELSE y
         [] k = "max"   -> IF cnt > 0 THEN Max2(x, y) ELSE y
         [] k = "first" -> IF cnt > 0 THEN x ELSE y
         [] k = "last"  -> y

(* Intended merge: through the accumulated count.                            *)
Merge(k, p, q) == [a |-> MergeAcc(k, p.a, q.a, p.c), c |-> p.c + q.c]

(* Deviation D5 (numba-level merge without counts, count fixed to 1).        *)
(* dtypeclass matters: with float NaN the stale null always wins; with the   *)
(* int64-min sentinel it wins for min/first and loses for max.               *)
MergeAccDev(k, x, y, isfloat) ==
  IF SumLike(k) THEN x + y
  ELSE IF IsNull(y) THEN x
  ELSE CASE k = "min"   -> IF IsNull(x) THEN x ELSE Min2(x, y)
         [] k = "max"   -> IF IsNull(x) THEN (IF isfloat THEN x ELSE y) ELSE Max2(x, y)
         [] k = "first" -> x
         [] k = "last"  -> y
MergeDev(k, p, q, isfloat) == [a |-> MergeAccDev(k, p.a, q.a, isfloat), c |-> p.c + q.c]

(* What a kernel reports for a group from its final partial.                 *)
ResultOf(k, p) == IF k \in {"size", "count"} THEN p.c ELSE p.a

-----------------------------------------------------------------------------
(* Definitions over a whole sequence of values (the properties' right-hand  *)
(* side).  s is the sequence of values of the selected rows of one group,   *)
(* in row order.                                                             *)
NonNullIdx(s) == {i \in 1..Len(s) : ~IsNull(s[i])}

RECURSIVE SumSet(_, _)
SumSet(s, I) == IF I = {} THEN 0
                ELSE LET i == CHOOSE j \in I : TRUE IN s[i] + SumSet(s, I \ {i})
RECURSIVE SumSqSet(_, _)
SumSqSet(s, I) == IF I = {} THEN 0
                  ELSE LET i == CHOOSE j \in I : TRUE IN s[i] * s[i] + SumSqSet(s, I \ {i})

DefSize(s)  == Len(s)
DefCount(s) == Cardinality(NonNullIdx(s))
DefSum(s)   == SumSet(s, NonNullIdx(s))
DefSumSq(s) == SumSqSet(s, NonNullIdx(s))
DefMin(s)   == IF NonNullIdx(s) = {} THEN Null
               ELSE CHOOSE m \in {s[i] : i \in NonNullIdx(s)} :
                        \A i \in NonNullIdx(s) : m <= s[i]
DefMax(s)   == IF NonNullIdx(s) = {} THEN Null
               ELSE CHOOSE m \in {s[i] : i \in NonNullIdx(s)} :
                        \A i \in NonNullIdx(s) : m >= s[i]
DefFirst(s) == IF NonNullIdx(s) = {} THEN Null
               ELSE s[CHOOSE i \in NonNullIdx(s) : \A j \in NonNullIdx(s) : i <= j]
DefLast(s)  == IF NonNullIdx(s) = {} THEN Null
               ELSE s[CHOOSE i \in NonNullIdx(s) : \A j \in NonNullIdx(s) : i >= j]

Def(k, s) ==
  CASE k = "size"  -> DefSize(s)
    [] k = "count" -> DefCount(s)
    [] k = "sum"   -> DefSum(s)
    [] k = "sumsq" -> DefSumSq(s)
    [] k = "min"   -> DefMin(s)
    [] k = "max"   -> DefMax(s)
    [] k = "first" -> DefFirst(s)
    [] k = "last"  -> DefLast(s)

(* Rationals <<num, den>>, den > 0, in lowest terms.                         *)
RECURSIVE Gcd(_, _)
Gcd(a, b) == IF b = 0 THEN a ELSE Gcd(b, a % b)
Abs(x) == IF x < 0 THEN -x ELSE x
Rat(n, d) == LET g == Gcd(Abs(n), Abs(d))
                 s == IF d < 0 THEN -1 ELSE 1
             IN  IF g = 0 THEN <<0, 1>> ELSE <<s * (n \div g), s * (d \div g)>>
RatEq(p, q) == p[1] * q[2] = q[1] * p[2]
RatAdd(p, q) == Rat(p[1] * q[2] + q[1] * p[2], p[2] * q[2])
RatMul(p, q) == Rat(p[1] * q[1], p[2] * q[2])
RatDiv(p, q) == Rat(p[1] * q[2], p[2] * q[1])
RatOfInt(n) == <<n, 1>>
NullRat == <<Null, 1>>

DefMean(s) == IF DefCount(s) = 0 THEN NullRat ELSE Rat(DefSum(s), DefCount(s))

(* Sample variance (C16).  The library uses the one-pass form                *)
(*   (Q - S*S/n) / (n - ddof),  S = sum, Q = sum of squares, n = count,       *)
(* the property states the two-pass definition sum((x - mean)^2)/(n - ddof). *)
(* Over the rationals both are (n*Q - S*S) / (n*(n - ddof)); GBStats checks  *)
(* the integer identity behind this for every sequence in its domain.        *)
DefVarRat(s, ddof) ==
  LET n == DefCount(s)
      S == DefSum(s)
      Q == DefSumSq(s)
  IN  IF n - ddof <= 0 THEN NullRat ELSE Rat(n * Q - S * S, n * (n - ddof))
(* n^2 * sum((x - mean)^2) = sum((n*x - S)^2), an integer                    *)
RECURSIVE SumDevSq(_, _, _, _)
SumDevSq(s, I, n, S) == IF I = {} THEN 0
                        ELSE LET i == CHOOSE j \in I : TRUE
                             IN  (n * s[i] - S) * (n * s[i] - S) + SumDevSq(s, I \ {i}, n, S)
TwoPassVarRat(s, ddof) ==
  LET n == DefCount(s)
      S == DefSum(s)
  IN  IF n - ddof <= 0 THEN NullRat ELSE Rat(SumDevSq(s, NonNullIdx(s), n, S), n * n * (n - ddof))

(* Fold a sequence through Step: the single-pass mechanism as an operator.   *)
RECURSIVE FoldStep(_, _, _)
FoldStep(k, p, s) == IF s = <<>> THEN p ELSE FoldStep(k, Step(k, p, Head(s)), Tail(s))
=============================================================================
