------------------------------- MODULE GBSelMC -------------------------------
(***************************************************************************)
(* Model check of the selection operators of GBSel (C04, C05): for every    *)
(* length n <= MaxN and every mask of every kind the operator selects the   *)
(* rows "the way array indexing would", stated here independently:          *)
(*  - a slice selects range over slice.indices(n), where indices is defined   *)
(*    by its defining property (membership), not by the clamping formulas;  *)
(*  - a boolean mask selects the TRUE positions in ascending order;         *)
(*  - positions select themselves, negatives counted from the end.          *)
(***************************************************************************)
EXTENDS GBSel, FiniteSets, TLC

CONSTANT MaxN
VARIABLES n, m
Bounds(k) == {None} \cup (-(k + 1) .. (k + 1))
Steps == {None, 1, 2, 3, -1, -2}
Init == /\ n \in 0..MaxN
        /\ m \in [k : {"slice"}, s : Bounds(MaxN) \X Bounds(MaxN) \X Steps]
             \cup [k : {"bool"}, b : UNION {[1..j -> {0, 1}] : j \in 0..MaxN}]
             \cup [k : {"pos"}, p : UNION {[1..j -> -(MaxN)..(MaxN - 1)] : j \in 0..2}]
Next == UNCHANGED <<n, m>>
Spec == Init /\ [][Next]_<<n, m>>

(* Python semantics of a[start:stop:step] stated by membership: position x is selected iff it lies
   between the normalised bounds and is congruent to the first selected position modulo |step| *)
Norm(x, len) == IF x < 0 THEN x + len ELSE x
InSlice(x, len, start, stop, step) ==
  LET st == IF step = None THEN 1 ELSE step IN
  IF st > 0
  THEN LET a0 == IF start = None THEN 0 ELSE Norm(start, len)
           a == IF a0 < 0 THEN 0 ELSE a0
           b0 == IF stop = None THEN len ELSE Norm(stop, len)
           b == IF b0 > len THEN len ELSE b0
       IN  x >= a /\ x < b /\ (x - a) % st = 0
  ELSE LET a0 == IF start = None THEN len - 1 ELSE Norm(start, len)
           a == IF a0 > len - 1 THEN len - 1 ELSE a0
           b0 == IF stop = None THEN -1 ELSE Norm(stop, len)
           b == IF stop # None /\ b0 < 0 THEN -1 ELSE b0
       IN  x <= a /\ x > b /\ (a - x) % (-st) = 0
Ascending(s) == \A i, j \in 1..Len(s) : i < j => s[i] < s[j]
Descending(s) == \A i, j \in 1..Len(s) : i < j => s[i] > s[j]

SliceIsRange == m.k = "slice" =>
   LET s == SliceIdx0(n, m.s[1], m.s[2], m.s[3])
       st == IF m.s[3] = None THEN 1 ELSE m.s[3]
   IN  /\ {s[i] : i \in 1..Len(s)} = {x \in 0..(n - 1) : InSlice(x, n, m.s[1], m.s[2], m.s[3])}
       /\ IF st > 0 THEN Ascending(s) ELSE Descending(s)
BoolIsFilter == (m.k = "bool" /\ Len(m.b) = n) =>
   LET s == BoolIdx0(m.b, 1)
   IN  /\ {s[i] : i \in 1..Len(s)} = {x \in 0..(n - 1) : m.b[x + 1] = 1}
       /\ Ascending(s)
PosIsIndexing == m.k = "pos" =>
   IF PosOk(n, m.p)
   THEN LET s == PosIdx0(n, m.p) IN
        /\ Len(s) = Len(m.p)
        /\ \A i \in 1..Len(s) : s[i] \in 0..(n - 1) /\ (s[i] = m.p[i] \/ s[i] = m.p[i] + n)
   ELSE \E i \in 1..Len(m.p) : m.p[i] < -n \/ m.p[i] >= n
=============================================================================
