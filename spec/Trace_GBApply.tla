---------------------------- MODULE Trace_GBApply ----------------------------
(***************************************************************************)
(* Trace validation for GroupBy.apply and what is built on it (median,      *)
(* quantile) -- C16 (ii), C07.  One trace: one real gb.apply(values, f,     *)
(* mask, transform) with a *recording* f.                                    *)
(*  T = [fkind, keys, vals, mask, tf, got, labels, res, same?]               *)
(*   got    : the value sequences f was called with (any call order)        *)
(*   labels : result labels; res: f's results as placed by the library      *)
(*   same   : median()/quantile() returned what apply(np.median/...) did    *)
(* f's result is an order-sensitive checksum G of its input, so placement   *)
(* and "values in row order" are both observable.                            *)
(***************************************************************************)
EXTENDS GBCore, Json, IOUtils, TLCExt

Traces == JsonDeserialize(IOEnv.TRACE_FILE)
VARIABLES tid, i, pc
tvars == <<cvars, tid, i, pc>>
T == Traces[tid]
N == Len(T.keys)
SelT == Sel0(N, T.mask)

RECURSIVE G(_, _)
G(s, j) == IF j > Len(s) THEN 1000 * Len(s) ELSE j * (IF s[j] = Null THEN 9 ELSE s[j]) + G(s, j + 1)

TraceInit == /\ tid \in 1..Len(Traces) /\ CoreInit("size")
             /\ i = 0 /\ pc = "fact"
TraceFact == /\ pc = "fact" /\ i < N /\ FactStepC(T.keys[i + 1]) /\ i' = i + 1 /\ UNCHANGED <<tid, pc>>
TraceFactDone == /\ pc = "fact" /\ i = N /\ pc' = "red" /\ i' = 0 /\ UNCHANGED <<cvars, tid>>
TraceRed == /\ pc = "red" /\ i < Len(SelT)
            /\ LET r == SelT[i + 1] + 1 IN RedStepC(T.keys[r], T.vals[r])
            /\ i' = i + 1 /\ UNCHANGED <<tid, pc>>

L == Listed(TRUE, TRUE, T.rank)                   \* groups with at least one selected row, ascending
GV(g) == GroupValsH(dict[g])
(* vector-valued functions are also probed by the library on slices of a group (to tell a fixed-length *)
(* result from an input-aligned one): there every group's sequence must be among the calls            *)
GotOk == IF T.fkind = "scalar"
         THEN /\ Len(T.got) = Len(L)
              /\ {T.got[j] : j \in 1..Len(T.got)} = {GV(L[j]) : j \in 1..Len(L)}
         ELSE {GV(L[j]) : j \in 1..Len(L)} \subseteq {T.got[j] : j \in 1..Len(T.got)}
ScalarOk == /\ T.labels = [j \in 1..Len(L) |-> dict[L[j]]]
            /\ T.res = [j \in 1..Len(L) |-> G(GV(L[j]), 1)]
TransformOk == /\ Len(T.res) = N
               /\ \A r \in 1..N : IF KeyIsNull(T.keys[r]) \/ ksz[IndexOf(dict, T.keys[r])] = 0 THEN TRUE
                                  ELSE T.res[r] = G(GV(IndexOf(dict, T.keys[r])), 1)
FixedOk == /\ T.labels = [j \in 1..(2 * Len(L)) |-> dict[L[(j + 1) \div 2]]]
           /\ T.res = [j \in 1..(2 * Len(L)) |-> G(GV(L[(j + 1) \div 2]), 1) + ((j + 1) % 2)]
(* aligned: one output row per selected row, grouped by label, each with its original position *)
AlignedOk == LET rowsOf(g) == SelectSeq(SelT, LAMBDA p : T.keys[p + 1] = dict[g])
                 flat == [j \in 1..Len(L) |-> rowsOf(L[j])]
             IN  /\ Len(T.res) = Len(T.pos)
                 /\ \A j \in 1..Len(T.res) : T.res[j] = (IF T.vals[T.pos[j] + 1] = Null THEN Null ELSE 2 * T.vals[T.pos[j] + 1])
                 /\ T.labels = [j \in 1..Len(T.pos) |-> T.keys[T.pos[j] + 1]]
                 /\ {T.pos[j] : j \in 1..Len(T.pos)} = {SelT[j] : j \in {jj \in 1..Len(SelT) : ~KeyIsNull(T.keys[SelT[jj] + 1])}}
                 /\ \A a, b \in 1..Len(T.pos) : a < b =>
                       \/ LexLess(T.rank, T.labels[a], T.labels[b], 1)
                       \/ (T.labels[a] = T.labels[b] /\ T.pos[a] < T.pos[b])
Ok == /\ T.out = "ok"
      /\ GotOk
      /\ (IF "same" \in DOMAIN T THEN T.same = 1 ELSE TRUE)
      /\ CASE T.fkind = "scalar" /\ T.tf = 0 -> ScalarOk
           [] T.fkind = "scalar" /\ T.tf = 1 -> TransformOk
           [] T.fkind = "fixed" -> FixedOk
           [] T.fkind = "aligned" -> AlignedOk
TraceReturn == /\ pc = "red" /\ i = Len(SelT) /\ Ok /\ PrintT(<<"ACCEPT", tid>>)
               /\ pc' = "done" /\ UNCHANGED <<cvars, tid, i>>
TraceNext == TraceFact \/ TraceFactDone \/ TraceRed \/ TraceReturn
TraceSpec == TraceInit /\ [][TraceNext]_tvars
=============================================================================
