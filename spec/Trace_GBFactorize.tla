------------------------- MODULE Trace_GBFactorize -------------------------
(***************************************************************************)
(* Trace validation for factorization (C02).  One trace = one real          *)
(* factorization (factorize_1d / factorize_2d / GroupBy(...) with its       *)
(* derived views), projected to logical codes, labels, groups and sizes.    *)
(* The property is a *relation* (P1-P5), so any code assignment that is a   *)
(* faithful partition is accepted.                                           *)
(***************************************************************************)
EXTENDS GBFactorizeOps, Json, IOUtils, TLCExt

Traces == JsonDeserialize(IOEnv.TRACE_FILE)
VARIABLES tid, tpc
tvars == <<tid, tpc>>
T == Traces[tid]

TraceInit == tid \in 1..Len(Traces) /\ tpc = "call"

Ok == /\ T.out = "ok"
      /\ Faithful(T.keys, T.codes, T.labels)
      /\ ("sizes" \in DOMAIN T) => SizesFaithful(T.keys, T.labels, T.sizes)
      /\ ("glabels" \in DOMAIN T) => GroupsFaithful(T.keys, T.glabels, T.grows)
      /\ ("ngroups" \in DOMAIN T) => T.ngroups = Len(T.labels)
      \* bookkeeping views of the object: has_null_keys <=> some row has the null code, len() = number of rows
      /\ ("hasnull" \in DOMAIN T) => /\ (T.hasnull = 1) <=> (\E i \in 1..Len(T.keys) : KeyIsNull(T.keys[i]))
                                      /\ T.hasnull \in {0, 1}
                                      /\ T.nrows = Len(T.keys)

(* scaled multi-key probes (label counts that push the mixed-radix weights across 2^31 / 2^32): only the probe rows are  *)
(* shipped, with the label found at each row's code; the relation P1-P3 is checked on them, P4 through the number of      *)
(* groups, which is known by construction                                                                                 *)
ProbeOk == /\ T.out = "ok"
           /\ Len(T.codes) = Len(T.keys) /\ Len(T.labels_at) = Len(T.keys)
           /\ \A i \in 1..Len(T.keys) :
                /\ (T.codes[i] = -1) <=> KeyIsNull(T.keys[i])
                /\ T.codes[i] # -1 => T.labels_at[i] = T.keys[i]
           /\ \A i, j \in 1..Len(T.keys) :
                (T.codes[i] # -1 /\ T.codes[j] # -1) => ((T.codes[i] = T.codes[j]) <=> (T.keys[i] = T.keys[j]))
           /\ T.ngroups = T.expected_ngroups
TraceReturn == /\ tpc = "call"
               /\ IF "probe" \in DOMAIN T THEN ProbeOk ELSE Ok
               /\ PrintT(<<"ACCEPT", tid>>)
               /\ tpc' = "done"
               /\ UNCHANGED tid
TraceNext == TraceReturn
TraceSpec == TraceInit /\ [][TraceNext]_tvars
=============================================================================
