--------------------------- MODULE Trace_GBReduce ---------------------------
(***************************************************************************)
(* Trace validation for the array-level kernels (C04, and the kernel part   *)
(* of C03).  One trace = one real call of groupby_lib.groupby.numba.group_* *)
(*                                                                           *)
(*  {op, codes, vals, mask, blocks, out, res, nonull, reshi?}                *)
(*                                                                           *)
(* The trace spec replays the call through GBReduce's own actions: one      *)
(* RowStep per selected row (selection = Sel0, i.e. array indexing), one    *)
(* BlockStep at every block boundary the call used, and accepts at Return   *)
(* only if the logged result is what the machine holds.                      *)
(***************************************************************************)
EXTENDS GBReduce, Json, IOUtils, TLC, TLCExt

CONSTANT Diag   \* TRUE: never block at Return, print the expected result instead

Traces == JsonDeserialize(IOEnv.TRACE_FILE)

VARIABLES tid, i, b, pc
tvars == <<vars, tid, i, b, pc>>

T == Traces[tid]
KernelOf(op) == IF op = "mean" THEN "sum" ELSE op
N == Len(T.codes)
MaskOk == IF T.mask.k = "pos" THEN PosOk(N, T.mask.p)
          ELSE IF T.mask.k = "bool" THEN Len(T.mask.b) = N
          ELSE TRUE
SelT == Sel0(N, T.mask)     \* 0-based positions, in processing order

RECURSIVE CumSum(_, _, _)
CumSum(s, j, acc) == IF j > Len(s) THEN <<>> ELSE <<acc + s[j]>> \o CumSum(s, j + 1, acc + s[j])
(* boundaries between blocks, as numbers of selected rows consumed          *)
Bounds == LET cs == CumSum(T.blocks, 1, 0) IN SubSeq(cs, 1, Len(cs) - 1)

TraceInit ==
  /\ tid \in 1 .. Len(Traces)
  /\ kernel = KernelOf(Traces[tid].op)
  /\ single = EmptyAll(kernel)
  /\ merged = EmptyAll(kernel)
  /\ cur = EmptyAll(kernel)
  /\ nblocks = 0
  /\ nrows = 0
  /\ hist = [g \in Groups |-> <<>>]
  /\ i = 0
  /\ b = 0
  /\ pc = "run"

TraceBlock ==
  /\ pc = "run" /\ MaskOk
  /\ b < Len(Bounds) /\ Bounds[b + 1] = i
  /\ BlockStep
  /\ b' = b + 1
  /\ UNCHANGED <<tid, i, pc>>

TraceRow ==
  /\ pc = "run" /\ MaskOk
  /\ (IF b = Len(Bounds) THEN TRUE ELSE Bounds[b + 1] > i)
  /\ i < Len(SelT)
  /\ LET r == SelT[i + 1] + 1 IN RowStep(T.codes[r], T.vals[r])
  /\ i' = i + 1
  /\ UNCHANGED <<tid, b, pc>>

Expected(g) ==
  IF T.op = "mean"
  THEN (IF single[g].c = 0 THEN NullRat ELSE Rat(BlockResult(g), single[g].c))
  ELSE BlockResult(g)

(* a dtype without an in-band null cannot report "null" for an empty group: *)
(* the value there is not judged                                            *)
DontCare(g) == T.nonull = 1 /\ ~SumLike(kernel) /\ DefCount(hist[g]) = 0

ResOk == /\ T.out = "ok"
         /\ Len(T.res) = NG
         /\ \A g \in Groups : DontCare(g) \/ T.res[g + 1] = Expected(g)
         /\ ("reshi" \in DOMAIN T) =>
               \A g \in Groups : DontCare(g) \/ T.reshi[g + 1] = DefCount(hist[g])

TraceReturn ==
  /\ pc = "run" /\ MaskOk
  /\ i = Len(SelT) /\ b = Len(Bounds)
  /\ IF Diag
     THEN PrintT(<<"EXPECT", tid, [g \in Groups |-> Expected(g)]>>)
     ELSE ResOk /\ PrintT(<<"ACCEPT", tid>>)
  /\ pc' = "done"
  /\ UNCHANGED <<vars, tid, i, b>>

(* a mask that array indexing rejects must be rejected                      *)
TraceRaise ==
  /\ pc = "run" /\ ~MaskOk
  /\ IF Diag THEN PrintT(<<"EXPECT", tid, "raise">>)
     ELSE T.out = "raise" /\ PrintT(<<"ACCEPT", tid>>)
  /\ pc' = "done"
  /\ UNCHANGED <<vars, tid, i, b>>

TraceNext == TraceBlock \/ TraceRow \/ TraceReturn \/ TraceRaise
TraceSpec == TraceInit /\ [][TraceNext]_tvars

(* every invariant of the model is evaluated on every state of every trace  *)
TraceInv == SingleIsDef /\ BlocksAreSingle
=============================================================================
