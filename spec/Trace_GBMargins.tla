--------------------------- MODULE Trace_GBMargins ---------------------------
(***************************************************************************)
(* Trace validation for margins and crosstab (C14).                         *)
(*  "margins" : T = [op, keys, vals, sel, levels, labels, res]               *)
(*      one real GroupBy.<op>(values, mask, margins=...) call; label tuples  *)
(*      carry 0 for 'All'.                                                   *)
(*  "crosstab": T = [op, keys, vals, sel, nrow, cells]                       *)
(*      one real crosstab(index, columns, values, aggfunc, mask, margins);  *)
(*      cells = [label tuple (row keys then column keys, 0 = All), value].   *)
(***************************************************************************)
EXTENDS GBMargins, Json, IOUtils, TLCExt
Traces == JsonDeserialize(IOEnv.TRACE_FILE)
VARIABLES tid, tpc
T == Traces[tid]
Rows == [j \in 1..Len(T.keys) |-> [key |-> T.keys[j], v |-> T.vals[j], sel |-> (T.sel[j] = 1)]]
TraceInit == tid \in 1..Len(Traces) /\ tpc = "call" /\ op = "sum" /\ rows = <<>>

LevelSet == {T.levels[j] : j \in 1..Len(T.levels)}
MarginsOk ==
  /\ IF Ordinary(Rows) = {}
     THEN \A j \in 1..Len(T.labels) : \A c \in 1..Len(T.labels[j]) : T.labels[j][c] = All   \* nothing selected: at most a grand total
     ELSE {T.labels[j] : j \in 1..Len(T.labels)} = MarginLabels(Rows, LevelSet)    \* exactly the rows it must have
  /\ \A a, b \in 1..Len(T.labels) : a # b => T.labels[a] # T.labels[b]
  /\ Len(T.res) = Len(T.labels)
  /\ \A j \in 1..Len(T.labels) : T.res[j] = DefCell(T.op, Rows, T.labels[j])     \* ordinary rows unchanged, 'All' rows = aggregate
CrosstabOk ==
  /\ \A j \in 1..Len(T.cells) :
       LET lab == T.cells[j][1]
           allall == \A c \in 1..Len(lab) : lab[c] = All
       IN  T.cells[j][2] = (IF Len(SelectSeq(Rows, LAMBDA r : r.sel /\ Matches(r.key, lab))) = 0 /\ ~allall
                            THEN (IF T.op = "mean" THEN NullRat ELSE Null)          \* absent combination
                            ELSE DefCell(T.op, Rows, lab))
  /\ \A m \in 1..Len(T.must) : \E j \in 1..Len(T.cells) : T.cells[j][1] = T.must[m]   \* requested margins are there
Ok == T.out = "ok" /\ (IF T.kind = "margins" THEN MarginsOk ELSE CrosstabOk)
TraceReturn == /\ tpc = "call" /\ Ok /\ PrintT(<<"ACCEPT", tid>>) /\ tpc' = "done" /\ UNCHANGED <<tid, op, rows>>
TraceSpec == TraceInit /\ [][TraceReturn]_<<mvars, tid, tpc>>
=============================================================================
