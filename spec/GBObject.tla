------------------------------ MODULE GBObject ------------------------------
(***************************************************************************)
(* The GroupBy object as a state machine (C13): its key representation and  *)
(* caches change under the hood, its answers must not.                      *)
(*                                                                           *)
(* Anchors (core.py): GroupBy.__init__ (incl. the copy constructor),        *)
(* groupby_method (class-level call), _factorize_group_key_in_chunks,       *)
(* _unify_group_key_chunks(keep_chunked) and all its callers                 *)
(* (_group_sort_indexer -> groups / apply / median / group-sorted layouts;  *)
(* transform; head/tail/nth; cumulative and rolling methods), the cached     *)
(* properties.                                                               *)
(*                                                                           *)
(* rep   : "flat"  contiguous global codes                                   *)
(*         "local" chunked, per-chunk dictionaries + pointer tables          *)
(*         "glob"  chunked, global codes in every chunk, pointers dropped    *)
(* cache : which cached properties are populated                             *)
(* The logical grouping (codes, labels) is a constant of the object: no     *)
(* action may change it, and every operation must be enabled in every       *)
(* reachable state.                                                          *)
(***************************************************************************)
EXTENDS Integers, FiniteSets, Sequences, TLC

CONSTANTS UnifyNeedsPointers,   \* deviation D12: unify(keep_chunked=FALSE) fails once the pointers are gone
          CopyDropsFields,      \* deviation D13: GroupBy(gb) copies two of the fields only
          MemoByIdentity        \* deviation: something computed from a call's mask / values is remembered under the
                                \* argument's identity and served again although the caller refilled the buffer

Ops == {"reduce", "reduce_pos", "transform", "groups", "select", "cumroll", "apply", "ema", "size", "keycount", "copy", "classcall"}
Caches == {"ikey_count", "key_count", "sort_indexer", "groups", "argsort", "lengths"}

(* The caller may pass the SAME mask / values buffer to several calls and rewrite it in place in between (the usual     *)
(* way to loop over "everything but group k"): bufver counts the rewrites (environment action Refill).  The answer of a  *)
(* call is a function of the buffer's content at call time, never of its identity: memo / stale model the deviation.     *)
MaxRefills == 2
MaskedOps == {"reduce", "reduce_pos", "size", "transform", "cumroll", "apply", "ema"}
VARIABLES rep, cache, broken, last, bufver, memo, stale
(* broken: the object lacks fields (deviation CopyDropsFields) -- every later call fails *)
(* last  : the operation that led here (history variable for trace export)              *)
(* memo  : buffer version remembered by identity (-1: nothing), stale: some call answered from an outdated version *)
ovars == <<rep, cache, broken, last, bufver, memo, stale>>

Init == /\ rep \in {"flat", "local"}
        /\ cache = {}
        /\ broken = FALSE
        /\ last = "init"
        /\ bufver = 0 /\ memo = -1 /\ stale = FALSE

UnifyKeep(r) == IF r = "local" THEN "glob" ELSE r          \* _unify_group_key_chunks(keep_chunked=True)
UnifyFlat(r) == "flat"                                        \* _unify_group_key_chunks(keep_chunked=False)
CanUnifyFlat(r) == ~(UnifyNeedsPointers /\ r = "glob")

Do(op) ==
  /\ ~broken
  /\ last' = op
  /\ UNCHANGED bufver
  /\ IF MemoByIdentity /\ op \in MaskedOps
     THEN /\ memo' = (IF memo = -1 THEN bufver ELSE memo)
          /\ stale' = (stale \/ (memo # -1 /\ memo # bufver))
     ELSE IF op = "copy" THEN memo' = -1 /\ UNCHANGED stale
     ELSE UNCHANGED <<memo, stale>>
  /\ CASE op = "reduce" ->
            /\ rep' = rep /\ cache' = cache \cup {"argsort", "ikey_count", "key_count", "lengths"} /\ UNCHANGED broken
       [] op = "reduce_pos" ->   \* a reduction (or size) under an integer-position mask: the chunks are unified first
            /\ CanUnifyFlat(rep)
            /\ rep' = UnifyFlat(rep) /\ cache' = cache \cup {"argsort", "ikey_count", "key_count", "lengths"} /\ UNCHANGED broken
       [] op \in {"size", "keycount"} ->
            /\ rep' = rep /\ cache' = cache \cup {"ikey_count", "key_count", "lengths", "argsort"} /\ UNCHANGED broken
       [] op = "transform" ->
            /\ CanUnifyFlat(rep)
            /\ rep' = UnifyFlat(rep) /\ cache' = cache \cup {"lengths", "argsort"} /\ UNCHANGED broken
       [] op \in {"select", "cumroll"} ->
            /\ CanUnifyFlat(rep)
            /\ rep' = UnifyFlat(rep) /\ cache' = cache \cup {"lengths"} /\ UNCHANGED broken
       [] op = "groups" ->
            /\ rep' = UnifyKeep(rep)
            /\ cache' = cache \cup {"sort_indexer", "groups", "ikey_count", "argsort", "lengths"} /\ UNCHANGED broken
       [] op = "apply" ->
            /\ rep' = UnifyKeep(rep)
            /\ cache' = cache \cup {"sort_indexer", "ikey_count", "argsort", "lengths"} /\ UNCHANGED broken
       [] op = "ema" ->          \* needs one global code per row: unifies like the cumulative methods
            /\ CanUnifyFlat(rep)
            /\ rep' = UnifyFlat(rep) /\ cache' = cache \cup {"lengths"} /\ UNCHANGED broken
       [] op = "copy" ->          \* continue with GroupBy(gb): fresh caches, same logical grouping
            /\ rep' = rep /\ cache' = {} /\ broken' = CopyDropsFields
       [] op = "classcall" ->     \* GroupBy.<method>(raw keys, ...): a new object, this one untouched
            /\ UNCHANGED <<rep, cache, broken>>

(* the environment: the caller rewrites its argument buffers in place *)
Refill == /\ ~broken /\ bufver < MaxRefills
          /\ bufver' = bufver + 1 /\ last' = "refill"
          /\ UNCHANGED <<rep, cache, broken, memo, stale>>
Next == (\E op \in Ops : Do(op)) \/ Refill
Spec == Init /\ [][Next]_ovars

TypeOK == rep \in {"flat", "local", "glob"} /\ cache \subseteq Caches /\ broken \in BOOLEAN /\ bufver \in 0..MaxRefills
(* every call answers for the buffer content it was given *)
AnswersCurrent == ~stale
(* no history makes a call fail *)
AlwaysEnabled == \A op \in Ops : ENABLED Do(op)
(* the pointer tables exist exactly in the "local" representation; nothing ever goes back to it *)
NoWayBack == [][rep # "local" => rep' # "local"]_ovars
CachesGrowOrReset == [][cache \subseteq cache' \/ cache' = {}]_ovars
=============================================================================
