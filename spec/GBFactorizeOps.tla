--------------------------- MODULE GBFactorizeOps ---------------------------
(***************************************************************************)
(* Factorization of group keys (C02), every route, as a state machine.      *)
(*                                                                           *)
(* Anchors: factorization.factorize_1d / factorize_2d / _weight_code_sum /  *)
(* _combine_factorizations / _monotonic_factorization,                       *)
(* core.GroupBy._factorize_group_key_in_chunks, _unify_group_key_chunks,     *)
(* count_ikey, _build_group_sorted_indexer_numba, groups.                    *)
(*                                                                           *)
(* Input: `keys`, a sequence of key tuples (components are label ids or     *)
(* Null).  Routes:                                                           *)
(*   "plain"   dictionary in first-appearance order (pd.factorize / arrow    *)
(*             dictionary_encode / categorical codes)                        *)
(*   "radix"   several keys: per-component dictionaries, mixed-radix         *)
(*             combination, null in ANY component = null key                 *)
(*   "chunked" (length >= threshold, or pre-chunked arrow keys): monotone    *)
(*             prefix scan, remaining rows cut into chunks, one dictionary   *)
(*             per chunk (tasks finish in any order), result index = union   *)
(*             of the dictionaries, pointer tables, unification p[k]         *)
(* Output: logical codes (one per row, -1 = null key) and labels.           *)
(***************************************************************************)
EXTENDS Integers, Sequences, FiniteSets, TLC

Null == -999

CONSTANTS LabelIds, NKeys, MaxRows, NChunks,    \* model checking domain
          MonoIgnoresNull,        \* deviation D3: run scan lets a null join the previous run
          UnifyWrapsNull,         \* deviation D6: p[-1] wraps to the last pointer entry
          LastKeyNullUnchecked    \* deviation D2: null in the last component not detected

KeyIsNull(key) == \E j \in 1..Len(key) : key[j] = Null
IndexOf(s, x) == IF \E j \in 1..Len(s) : s[j] = x
                 THEN CHOOSE j \in 1..Len(s) : s[j] = x ELSE 0

(* ---- relation the property states (P1-P4), on 0-based codes ------------ *)
Faithful(keys, codes, labels) ==
  /\ Len(codes) = Len(keys)
  /\ \A i \in 1..Len(keys) :
       /\ (codes[i] = -1) <=> KeyIsNull(keys[i])                               \* P3
       /\ codes[i] # -1 => /\ codes[i] >= 0 /\ codes[i] < Len(labels)
                           /\ labels[codes[i] + 1] = keys[i]                   \* P1
  /\ \A i, j \in 1..Len(keys) :
       (codes[i] # -1 /\ codes[j] # -1) => ((codes[i] = codes[j]) <=> (keys[i] = keys[j]))   \* P2
  /\ \A a, b \in 1..Len(labels) : a # b => labels[a] # labels[b]              \* P4
  /\ \A a \in 1..Len(labels) : ~KeyIsNull(labels[a])

(* P5: group -> rows mapping, per-group sizes                                *)
RowsOf(keys, lab) == {i \in 1..Len(keys) : keys[i] = lab}
GroupsFaithful(keys, glabels, grows) ==
  \* glabels[j] / grows[j]: label and ascending 0-based row positions of the j-th listed group
  /\ Len(glabels) = Len(grows)
  /\ \A j \in 1..Len(glabels) :
       /\ {grows[j][x] + 1 : x \in 1..Len(grows[j])} = RowsOf(keys, glabels[j])
       /\ \A x, y \in 1..Len(grows[j]) : x < y => grows[j][x] < grows[j][y]
       /\ Len(grows[j]) > 0
  /\ \A a, b \in 1..Len(glabels) : a # b => glabels[a] # glabels[b]
  /\ {glabels[j] : j \in 1..Len(glabels)} = {keys[i] : i \in {ii \in 1..Len(keys) : ~KeyIsNull(keys[ii])}}
SizesFaithful(keys, labels, sizes) ==
  /\ Len(sizes) = Len(labels)
  /\ \A a \in 1..Len(labels) : sizes[a] = Cardinality(RowsOf(keys, labels[a]))

-----------------------------------------------------------------------------
(* ---- mechanisms -------------------------------------------------------- *)
RECURSIVE FirstAppear(_, _, _)
FirstAppear(keys, i, d) == \* dictionary of keys[i..] appended to d
  IF i > Len(keys) THEN d
  ELSE LET k == keys[i] IN
       FirstAppear(keys, i + 1, IF KeyIsNull(k) \/ IndexOf(d, k) > 0 THEN d ELSE Append(d, k))
CodesIn(keys, d) == [i \in 1..Len(keys) |-> IF KeyIsNull(keys[i]) THEN -1 ELSE IndexOf(d, keys[i]) - 1]

(* monotone prefix scan (_monotonic_factorization): cutoff = number of rows  *)
(* taken; a null never belongs to a run                                      *)
Less(a, b) == a[1] < b[1]          \* single-key route only
RECURSIVE MonoCut(_, _)
MonoCut(keys, i) == \* largest c such that keys[1..c] is non-decreasing and null-free, scanning from i
  IF i > Len(keys) THEN Len(keys)
  ELSE IF KeyIsNull(keys[i]) THEN (IF MonoIgnoresNull /\ i > 1 THEN MonoCut(keys, i + 1) ELSE i - 1)
  ELSE IF i > 1 /\ ~KeyIsNull(keys[i - 1]) /\ Less(keys[i], keys[i - 1]) THEN i - 1
  ELSE MonoCut(keys, i + 1)
(* under the deviation a null row takes the code of the run before it       *)
RECURSIVE MonoCodes(_, _, _, _)
MonoCodes(keys, c, i, acc) == \* acc = <<codes, labels>>
  IF i > c THEN acc
  ELSE LET k == keys[i]
           labs == acc[2]
           isnew == ~KeyIsNull(k) /\ (labs = <<>> \/ labs[Len(labs)] # k)
           l2 == IF isnew THEN Append(labs, k) ELSE labs
       IN  MonoCodes(keys, c, i + 1, <<Append(acc[1], Len(l2) - 1), l2>>)

(* np.array_split sizes                                                      *)
SplitSizes(n, k) == [j \in 1..k |-> (n \div k) + (IF j <= n % k THEN 1 ELSE 0)]
RECURSIVE Offsets(_, _, _)
Offsets(sz, j, acc) == IF j > Len(sz) THEN <<>> ELSE <<acc>> \o Offsets(sz, j + 1, acc + sz[j])

RECURSIVE DropDup(_, _, _)
DropDup(s, i, d) == IF i > Len(s) THEN d
                    ELSE DropDup(s, i + 1, IF IndexOf(d, s[i]) > 0 THEN d ELSE Append(d, s[i]))
SortLabels(s) == SortSeq(s, LAMBDA a, b : Less(a, b))
RECURSIVE Concat(_, _)
Concat(ss, j) == IF j > Len(ss) THEN <<>> ELSE ss[j] \o Concat(ss, j + 1)
=============================================================================
