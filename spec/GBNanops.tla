------------------------------- MODULE GBNanops -------------------------------
(***************************************************************************)
(* The stand-alone NaN-aware reducers (C20) as a state machine.             *)
(*                                                                           *)
(* Anchors (nanops.py): reduce_1d (np.array_split into n_threads blocks,    *)
(* one _nb_reduce per block, reduce of the block results), _nb_reduce       *)
(* (initial_value 0 for sum / count / sum of squares, first non-null        *)
(* otherwise; all-null block => null), nanmean / nanvar / nanstd on top.    *)
(*                                                                           *)
(* The blocks are reduced in any order (parallel_map); a block may be       *)
(* empty (more threads than elements).                                       *)
(***************************************************************************)
EXTENDS GBValues, TLC

CONSTANTS Vals, MaxLen, MaxThreads,
          EmptyBlockReadsGarbage,  \* deviation D19: an empty block yields an arbitrary value instead of null
          SplitDropsTail           \* deviation: block bounds computed in floating point; the last bound falls one short
                                   \* for some (length, thread count) pairs (modelled: whenever length = threads + 1)

Fns == {"sum", "sumsq", "count", "min", "max"}

VARIABLES fn, arr, nthreads, blocks, partial, done, result, pc
nvars == <<fn, arr, nthreads, blocks, partial, done, result, pc>>

SplitSizesN(n, k) == [j \in 1..k |-> (n \div k) + (IF j <= n % k THEN 1 ELSE 0)]
RECURSIVE OffsetsN(_, _, _)
OffsetsN(sz, j, acc) == IF j > Len(sz) THEN <<>> ELSE <<acc>> \o OffsetsN(sz, j + 1, acc + sz[j])
BlocksOf(a, k) == LET sz == SplitSizesN(Len(a), k)
                      off == OffsetsN(sz, 1, 0)
                      short(j) == IF SplitDropsTail /\ j = k /\ Len(a) = k + 1 THEN 1 ELSE 0
                  IN  [j \in 1..k |-> SubSeq(a, off[j] + 1, off[j] + sz[j] - short(j))]
RECURSIVE CatN(_, _)
CatN(bs, j) == IF j > Len(bs) THEN <<>> ELSE bs[j] \o CatN(bs, j + 1)

RECURSIVE AllArrs(_)
AllArrs(n) == IF n = 0 THEN {<<>>} ELSE {Append(s, v) : s \in AllArrs(n - 1), v \in Vals \cup {Null}}

Init == /\ fn \in Fns
        /\ arr \in UNION {AllArrs(n) : n \in 1..MaxLen}
        /\ nthreads \in 1..MaxThreads
        /\ blocks = BlocksOf(arr, nthreads)
        /\ partial = [j \in 1..nthreads |-> Null]
        /\ done = {}
        /\ result = Null
        /\ pc = "blocks"

(* _nb_reduce on one block *)
BlockReduce(f, b) ==
  CASE f = "sum"   -> DefSum(b)
    [] f = "sumsq" -> DefSumSq(b)
    [] f = "count" -> DefCount(b)
    [] f = "min"   -> IF b = <<>> /\ EmptyBlockReadsGarbage THEN -7 ELSE DefMin(b)
    [] f = "max"   -> IF b = <<>> /\ EmptyBlockReadsGarbage THEN 77 ELSE DefMax(b)

Task(j) == /\ pc = "blocks" /\ j \in 1..nthreads /\ j \notin done
           /\ partial' = [partial EXCEPT ![j] = BlockReduce(fn, blocks[j])]
           /\ done' = done \cup {j}
           /\ UNCHANGED <<fn, arr, nthreads, blocks, result, pc>>

(* the block results are reduced once more, skipping nulls; counts and sums are added *)
Combine == /\ pc = "blocks" /\ done = 1..nthreads
           /\ result' = CASE fn \in {"sum", "sumsq", "count"} -> DefSum(partial)
                          [] fn = "min" -> DefMin(partial)
                          [] fn = "max" -> DefMax(partial)
           /\ pc' = "done"
           /\ UNCHANGED <<fn, arr, nthreads, blocks, partial, done>>
Next == (\E j \in 1..MaxThreads : Task(j)) \/ Combine
Spec == Init /\ [][Next]_nvars

DefFn(f, a) == CASE f = "sum" -> DefSum(a) [] f = "sumsq" -> DefSumSq(a) [] f = "count" -> DefCount(a)
                 [] f = "min" -> DefMin(a) [] f = "max" -> DefMax(a)
ResultIsDef == pc = "done" => result = DefFn(fn, arr)
(* the blocks are a partition of the array into consecutive runs: every element is in exactly one block, in order *)
BlocksPartition == CatN(blocks, 1) = arr /\ Len(blocks) = nthreads
=============================================================================
