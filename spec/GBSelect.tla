------------------------------ MODULE GBSelect ------------------------------
(***************************************************************************)
(* head / tail / nth row selection (C15) as a state machine.                *)
(*                                                                           *)
(* Anchors: numba._find_first_or_last_n, _find_nth (forward / backward scan *)
(* with a per-group counter `seen`), core.GroupBy.head / tail / nth,        *)
(* _get_row_selection.                                                       *)
(*                                                                           *)
(* The scan visits the rows in order (forward for head and nth(n >= 0),     *)
(* backward for tail and nth(n < 0)); seen[g] counts the rows of g visited  *)
(* so far.  The counter has a width: SeenBits = 0 means unbounded (the      *)
(* intended mechanism), otherwise it is a two's complement integer of that  *)
(* many bits (the negative configuration: the pinned code used 16 bits).    *)
(***************************************************************************)
EXTENDS Integers, Sequences, FiniteSets

Null == -999

CONSTANTS Groups, MaxRows, NArgs,     \* model checking domain
          SeenBits

NArgsFull == -4 .. 5
NArgsSmall == -2 .. 3

VARIABLES kind, narg, keys, pos, seen, picked, scanned
(* kind : "head" | "tail" | "nth";  narg : the n argument                    *)
(* keys : the whole key column (chosen at Init: the scan may run backwards)  *)
(* pos  : next row to visit (1-based), picked : set of selected rows        *)
svars == <<kind, narg, keys, pos, seen, picked, scanned>>

RECURSIVE Pow2(_)
Pow2(e) == IF e = 0 THEN 1 ELSE 2 * Pow2(e - 1)
Wrap(x) == IF SeenBits = 0 THEN x
           ELSE LET half == Pow2(SeenBits - 1) IN ((x + half) % (2 * half)) - half

Backward(k, n) == k = "tail" \/ (k = "nth" /\ n < 0)
Target(k, n) == IF k = "nth" THEN (IF n >= 0 THEN n ELSE -n - 1) ELSE n   \* rows to skip (nth) / to take

SelInit(k, n, ks) == /\ kind = k /\ narg = n /\ keys = ks
                     /\ pos = IF Backward(k, n) THEN Len(ks) ELSE 1
                     /\ seen = [g \in Groups |-> 0]
                     /\ picked = {}
                     /\ scanned = 0

Visit ==
  /\ scanned < Len(keys)
  /\ LET g == keys[pos] IN
     IF g = Null
     THEN UNCHANGED <<seen, picked>>
     ELSE IF kind = "nth"
          THEN /\ picked' = IF seen[g] = Target(kind, narg) THEN picked \cup {pos} ELSE picked
               /\ seen' = [seen EXCEPT ![g] = Wrap(@ + 1)]
          ELSE IF seen[g] < Target(kind, narg)
               THEN /\ picked' = picked \cup {pos}
                    /\ seen' = [seen EXCEPT ![g] = Wrap(@ + 1)]
               ELSE UNCHANGED <<seen, picked>>
  /\ pos' = IF Backward(kind, narg) THEN pos - 1 ELSE pos + 1
  /\ scanned' = scanned + 1
  /\ UNCHANGED <<kind, narg, keys>>

-----------------------------------------------------------------------------
(* definition                                                                *)
RowsOfG(ks, g) == {i \in 1..Len(ks) : ks[i] = g}
Rank(ks, i) == Cardinality({j \in RowsOfG(ks, ks[i]) : j < i})        \* 0-based rank from the start
RankEnd(ks, i) == Cardinality({j \in RowsOfG(ks, ks[i]) : j > i})     \* 0-based rank from the end
DefSelect(k, n, ks) ==
  {i \in 1..Len(ks) : ks[i] # Null /\
     CASE k = "head" -> Rank(ks, i) < n
       [] k = "tail" -> RankEnd(ks, i) < n
       [] k = "nth"  -> IF n >= 0 THEN Rank(ks, i) = n ELSE RankEnd(ks, i) = -n - 1}

RECURSIVE AllKeySeqs(_)
AllKeySeqs(n) == IF n = 0 THEN {<<>>} ELSE {Append(s, k) : s \in AllKeySeqs(n - 1), k \in Groups \cup {Null}}

Init == \E k \in {"head", "tail", "nth"}, n \in NArgs, m \in 0..MaxRows :
          \E ks \in AllKeySeqs(m) : (k = "nth" \/ n >= 0) /\ SelInit(k, n, ks)
Next == Visit
Spec == Init /\ [][Next]_svars

SelectIsDef == scanned = Len(keys) => picked = DefSelect(kind, narg, keys)
NoNullKeyPicked == \A i \in picked : keys[i] # Null
PickedOnce == TRUE   \* `picked` is a set of row positions: a row can be selected at most once by construction
=============================================================================
