--------------------------- MODULE Trace_GBObject ---------------------------
(***************************************************************************)
(* Trace validation for object histories (C13).  One trace: one real        *)
(* GroupBy object driven through a sequence of public operations; after     *)
(* every call the driver logs the operation class, the projected            *)
(* representation and whether the call returned what a freshly built        *)
(* grouping returns for the same call.                                       *)
(*   T = [init, ev: Seq([op, rep, eq])]                                      *)
(***************************************************************************)
EXTENDS GBObject, Json, IOUtils, TLCExt
Traces == JsonDeserialize(IOEnv.TRACE_FILE)
VARIABLES tid, l
tvars == <<ovars, tid, l>>
T == Traces[tid]

TraceInit == /\ tid \in 1..Len(Traces)
             /\ rep = Traces[tid].init /\ cache = {} /\ broken = FALSE /\ last = "init"
             /\ bufver = 0 /\ memo = -1 /\ stale = FALSE
             /\ l = 1

TraceStep == /\ l <= Len(T.ev)
             /\ LET e == T.ev[l] IN
                /\ IF e.op = "refill" THEN Refill ELSE Do(e.op)   \* (refill: the caller rewrote its reusable mask / values buffers)
                /\ e.eq = 1                                   \* same answer as a fresh grouping
                /\ (e.rep = "unobservable" \/ rep' = e.rep)   \* internal conformance (skipped if not observable)
             /\ l' = l + 1
             /\ UNCHANGED tid
TraceDone == /\ l = Len(T.ev) + 1
             /\ PrintT(<<"ACCEPT", tid>>)
             /\ l' = l + 1
             /\ UNCHANGED <<ovars, tid>>
TraceNext == TraceStep \/ TraceDone
TraceSpec == TraceInit /\ [][TraceNext]_tvars
=============================================================================
