----------------------------- MODULE Trace_GBEma -----------------------------
(***************************************************************************)
(* Trace validation for EMAs (C10, C05, C06).  One trace: one real call of  *)
(* groupby_lib.ema / ema_grouped / GroupBy.ema, one RowEma action per row,  *)
(* the row's output (recovered as an exact rational) is the observation.    *)
(*   T = [timed, beta, keys, vals, sel, times, res, from?]                   *)
(* `from` (ungrouped entry): first row that is judged (the ungrouped kernel *)
(* has no null before the first valid observation).                          *)
(***************************************************************************)
EXTENDS GBEma, Json, IOUtils, TLC, TLCExt

CONSTANT Diag
Traces == JsonDeserialize(IOEnv.TRACE_FILE)
VARIABLES tid, i
tvars == <<evars, tid, i>>
T == Traces[tid]
N == Len(T.keys)

TraceInit == /\ tid \in 1..Len(Traces)
             /\ EmaInit(Traces[tid].timed = 1, Traces[tid].beta[1], Traces[tid].beta[2])
             /\ i = 0

JudgeFrom == IF "from" \in DOMAIN T THEN T.from ELSE 1

TraceRow == /\ T.out = "ok" /\ i < N /\ Len(T.res) = N /\ (IF "hi" \in DOMAIN T THEN Len(T.hi) = N ELSE TRUE)
            /\ RowEma(T.keys[i + 1], T.vals[i + 1], T.sel[i + 1] = 1, T.times[i + 1])
            /\ i' = i + 1
            /\ (Diag \/ LET r == i + 1 IN
                          IF T.keys[r] = Null \/ r < JudgeFrom THEN TRUE
                          ELSE IF outE'[r] = NullRat THEN T.res[r] = NullRat
                          ELSE T.res[r] = outE'[r])   \* both in lowest terms
            /\ UNCHANGED tid

TraceDone == /\ T.out = "ok" /\ i = N /\ Len(T.res) = N
             /\ (IF "layout_ok" \in DOMAIN T THEN T.layout_ok = 1 ELSE TRUE)
             /\ i' = N + 1
             /\ IF Diag THEN PrintT(<<"EXPECT", tid, outE>>) ELSE PrintT(<<"ACCEPT", tid>>)
             /\ UNCHANGED <<evars, tid>>

TraceNext == TraceRow \/ TraceDone
TraceSpec == TraceInit /\ [][TraceNext]_tvars
=============================================================================
