--------------------------- MODULE Trace_GBValidate ---------------------------
(***************************************************************************)
(* Trace validation for C18.  One trace: one real call of a public          *)
(* operation with exactly one argument perturbed (length delta, or a pandas *)
(* index that differs from the keys' index); the outcome is "return" or     *)
(* "reject" (any exception).  Replayed through GBValidate's pipeline.        *)
(*   T = [op, arg, delta (shipped + 10), idxrel, outcome]                    *)
(***************************************************************************)
EXTENDS GBValidate, Sequences, Json, IOUtils, TLCExt
Traces == JsonDeserialize(IOEnv.TRACE_FILE)
VARIABLES tid
T == Traces[tid]
TraceInit == /\ tid \in 1..Len(Traces)
             /\ delta = Traces[tid].delta - 10 /\ idxrel = Traces[tid].idxrel /\ pc = "lengths" /\ outcome = "pending"
TraceStep == (CheckLengths \/ CheckIndexes \/ Compute) /\ UNCHANGED tid
TraceDone == /\ pc = "done" /\ T.outcome = outcome /\ PrintT(<<"ACCEPT", tid>>)
             /\ pc' = "accepted" /\ UNCHANGED <<delta, idxrel, outcome, tid>>
TraceSpec == TraceInit /\ [][TraceStep \/ TraceDone]_<<vvars, tid>>
TraceInv == MisalignedRejected /\ AlignedAccepted
=============================================================================
