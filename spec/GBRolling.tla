------------------------------ MODULE GBRolling ------------------------------
(***************************************************************************)
(* Rolling group operations (C09) as a state machine.                       *)
(*                                                                           *)
(* Anchors (numba.py): _rolling_sum_or_mean_1d, _rolling_max_or_min_1d,     *)
(* min_or_max_and_position, _rolling_shift_or_diff_1d, _apply_rolling.      *)
(*                                                                           *)
(* Per group: a circular buffer of `W` slots, the write position, the       *)
(* number of rows seen (capped at W), the non-null count, the running sum   *)
(* or the current extremum.  Null-key rows and unselected rows are stutters.*)
(***************************************************************************)
EXTENDS GBValues

CONSTANTS Groups, Vals, MaxRows, OpSet, WSet,   \* model checking domain
          NoRecompute      \* deviation: extremum not recomputed when the best value is evicted

RollOps == {"sum", "mean", "min", "max", "shift", "diff"}

VARIABLES op, W, minp, st, out, hist
(* st : [g -> [buf, pos, seen, nn, acc]]                                     *)
rvars == <<op, W, minp, st, out, hist>>

EmptySt(w) == [buf |-> [j \in 1..w |-> Null], pos |-> 1, seen |-> 0, nn |-> 0, acc |-> 0]

RollInit(o, w, mp) == /\ op = o /\ W = w /\ minp = mp
                      /\ st = [g \in Groups |-> EmptySt(w)]
                      /\ out = <<>> /\ hist = <<>>

(* extremum of the non-null values in a buffer (min_or_max_and_position)     *)
BufVals(buf) == {buf[j] : j \in {jj \in 1..Len(buf) : buf[jj] # Null}}
BestOf(buf, wantmax) == IF BufVals(buf) = {} THEN Null
                        ELSE IF wantmax THEN CHOOSE m \in BufVals(buf) : \A x \in BufVals(buf) : m >= x
                        ELSE CHOOSE m \in BufVals(buf) : \A x \in BufVals(buf) : m <= x

StepSumMean(s, v) ==
  LET full == s.seen >= W
      old  == s.buf[s.pos]
      acc1 == IF full /\ old # Null THEN s.acc - old ELSE s.acc
      nn1  == IF full /\ old # Null THEN s.nn - 1 ELSE s.nn
  IN  [buf |-> [s.buf EXCEPT ![s.pos] = v],
       pos |-> (s.pos % W) + 1,
       seen |-> IF full THEN s.seen ELSE s.seen + 1,
       nn |-> IF v # Null THEN nn1 + 1 ELSE nn1,
       acc |-> IF v # Null THEN acc1 + v ELSE acc1]

StepMinMax(s, v, wantmax) ==
  LET full == s.seen >= W
      old  == s.buf[s.pos]
      nn1  == IF full /\ old # Null THEN s.nn - 1 ELSE s.nn
      buf1 == [s.buf EXCEPT ![s.pos] = v]
      better == v # Null /\ (nn1 = 0 \/ (wantmax /\ v >= s.acc) \/ (~wantmax /\ v <= s.acc))
      best == IF better THEN v
              ELSE IF full /\ ~NoRecompute THEN BestOf(buf1, wantmax)
              ELSE s.acc
  IN  [buf |-> buf1, pos |-> (s.pos % W) + 1,
       seen |-> IF full THEN s.seen ELSE s.seen + 1,
       nn |-> IF v # Null THEN nn1 + 1 ELSE nn1,
       acc |-> best]

StepShift(s, v) ==
  [buf |-> [s.buf EXCEPT ![s.pos] = v], pos |-> (s.pos % W) + 1,
   seen |-> IF s.seen >= W THEN s.seen ELSE s.seen + 1, nn |-> 0, acc |-> 0]

StepRoll(o, s, v) ==
  CASE o \in {"sum", "mean"} -> StepSumMean(s, v)
    [] o = "min" -> StepMinMax(s, v, FALSE)
    [] o = "max" -> StepMinMax(s, v, TRUE)
    [] o \in {"shift", "diff"} -> StepShift(s, v)

(* output of the row just consumed: s = state before, s1 = state after       *)
OutRoll(o, s, s1, v) ==
  CASE o = "sum"  -> IF s1.nn >= minp THEN s1.acc ELSE Null
    [] o = "mean" -> IF s1.nn >= minp /\ s1.nn > 0 THEN Rat(s1.acc, s1.nn) ELSE NullRat
    [] o \in {"min", "max"} -> IF s1.nn >= minp /\ s1.nn > 0 THEN s1.acc ELSE Null   \* (min_periods = 0: no value, no extreme)
    [] o = "shift" -> IF s.seen >= W THEN s.buf[s.pos] ELSE Null
    [] o = "diff"  -> IF s.seen >= W /\ s.buf[s.pos] # Null /\ v # Null THEN v - s.buf[s.pos] ELSE Null

RowRoll(k, v, sel) ==
  /\ hist' = Append(hist, [k |-> k, v |-> v, sel |-> sel])
  /\ UNCHANGED <<op, W, minp>>
  /\ IF k = Null \/ ~sel
     THEN /\ out' = Append(out, Junk) /\ UNCHANGED st
     ELSE LET s1 == StepRoll(op, st[k], v)
          IN  /\ st' = [st EXCEPT ![k] = s1]
              /\ out' = Append(out, OutRoll(op, st[k], s1, v))

-----------------------------------------------------------------------------
(* definition: the last W selected rows of the group, ending at row i        *)
GroupRows(i, g) == SelectSeq([j \in 1..i |-> j], LAMBDA j : hist[j].k = g /\ hist[j].sel)
WindowVals(i, g) == LET idx == GroupRows(i, g)
                        lo == IF Len(idx) > W THEN Len(idx) - W + 1 ELSE 1
                    IN  [x \in 1..(Len(idx) - lo + 1) |-> hist[idx[lo + x - 1]].v]
DefRoll(o, i, g) ==
  LET w == WindowVals(i, g)
      idx == GroupRows(i, g)
      nnw == DefCount(w)
  IN  CASE o = "sum"  -> IF nnw >= minp THEN DefSum(w) ELSE Null
        [] o = "mean" -> IF nnw >= minp /\ nnw > 0 THEN Rat(DefSum(w), nnw) ELSE NullRat
        [] o = "min"  -> IF nnw >= minp THEN DefMin(w) ELSE Null
        [] o = "max"  -> IF nnw >= minp THEN DefMax(w) ELSE Null
        [] o = "shift" -> IF Len(idx) > W THEN hist[idx[Len(idx) - W]].v ELSE Null
        [] o = "diff"  -> IF Len(idx) > W /\ hist[idx[Len(idx) - W]].v # Null /\ hist[i].v # Null
                          THEN hist[i].v - hist[idx[Len(idx) - W]].v ELSE Null
JudgedR(i) == hist[i].k # Null /\ hist[i].sel

Init == \E o \in OpSet, w \in WSet : \E mp \in 1..w : RollInit(o, w, mp)
Row == /\ Len(hist) < MaxRows
       /\ \E k \in Groups \cup {Null}, v \in Vals \cup {Null}, sel \in BOOLEAN : RowRoll(k, v, sel)
Next == Row
Spec == Init /\ [][Next]_rvars

WindowIsDef == \A i \in 1..Len(hist) : JudgedR(i) => out[i] = DefRoll(op, i, hist[i].k)
(* min / max / shift outputs are elements of the input (exactness)           *)
ExtremeIsElement == \A i \in 1..Len(hist) :
    (JudgedR(i) /\ op \in {"min", "max", "shift"} /\ out[i] # Null)
       => \E j \in 1..i : hist[j].v = out[i] /\ hist[j].k = hist[i].k
OnlyOwnGroupR == [][\A g \in Groups :
                    (Len(hist') = Len(hist) + 1 /\
                     (hist'[Len(hist')].k # g \/ ~hist'[Len(hist')].sel)) => st'[g] = st[g]]_rvars
=============================================================================
