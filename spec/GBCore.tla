------------------------------- MODULE GBCore -------------------------------
(***************************************************************************)
(* The GroupBy reduction pipeline at API level (C01, C05, C06, C07, C11).   *)
(*                                                                           *)
(* Anchors (groupby_lib/groupby/core.py, factorization.py):                  *)
(*   GroupBy.__init__ / factorize_1d / factorize_2d  -> dictionary build in  *)
(*        action Row (first-appearance order, null in any component = no     *)
(*        group)                                                             *)
(*   _apply_gb_func_across_chunked_group_keys / numba.group_* -> the         *)
(*        per-group partial updated in action Row (GBValues!Step)            *)
(*   _apply_gb_reduction: observed filter (key counts under the mask),       *)
(*        _labels_argsort, transform broadcast -> operators Reduced,         *)
(*        Transformed                                                        *)
(*                                                                           *)
(* A key is a tuple of components (label ids, or Null).  The machine reads  *)
(* rows [key, v, sel] one at a time; `rowlog` is the history the            *)
(* definitional side is computed from.                                      *)
(***************************************************************************)
EXTENDS GBValues, GBSel, TLC

CONSTANTS LabelIds,     \* label ids per component        (model checking only)
          NKeys,        \* number of key components        (model checking only)
          Vals,         \* non-null values                 (model checking only)
          MaxRows,      \*                                 (model checking only)
          KernelSet,    \*                                 (model checking only)
          ObservedByValueCount  \* deviation: observed := value count > 0 (drops all-null groups)

VARIABLES kernel,  \* the reduction
          dict,    \* Seq(key tuple): labels in first-appearance order
          part,    \* Seq(partial), aligned with dict
          ksz,     \* Seq(Nat): selected rows per label ("key count under the mask")
          rowlog   \* history: Seq([key, v, sel])

cvars == <<kernel, dict, part, ksz, rowlog>>

KeyIsNull(key) == \E j \in 1..Len(key) : key[j] = Null
IndexOf(s, x) == IF \E j \in 1..Len(s) : s[j] = x
                 THEN CHOOSE j \in 1..Len(s) : s[j] = x ELSE 0

CoreInit(k) == /\ kernel = k
               /\ dict = <<>>
               /\ part = <<>>
               /\ ksz = <<>>
               /\ rowlog = <<>>

(* factorization of one row: the dictionary grows in first-appearance order  *)
(* (every row is factorized, selected or not)                                *)
FactStepC(key) ==
  LET new == ~KeyIsNull(key) /\ IndexOf(dict, key) = 0
  IN  /\ dict' = IF new THEN Append(dict, key) ELSE dict
      /\ part' = IF new THEN Append(part, EmptyP(kernel)) ELSE part
      /\ ksz' = IF new THEN Append(ksz, 0) ELSE ksz
      /\ rowlog' = Append(rowlog, [key |-> key, v |-> Null, sel |-> FALSE])
      /\ UNCHANGED kernel

(* the kernel consumes one *selected* row; its key was factorized before     *)
RedStepC(key, v) ==
  LET g == IndexOf(dict, key)
  IN  /\ KeyIsNull(key) \/ g > 0
      /\ IF KeyIsNull(key)
         THEN UNCHANGED <<part, ksz>>
         ELSE /\ part' = [part EXCEPT ![g] = Step(kernel, @, v)]
              /\ ksz' = [ksz EXCEPT ![g] = @ + 1]
      /\ rowlog' = Append(rowlog, [key |-> key, v |-> v, sel |-> TRUE])
      /\ UNCHANGED <<kernel, dict>>

(* one row through factorization and (if selected) the kernel               *)
RowStepC(key, v, sel) ==
  LET isnull == KeyIsNull(key)
      idx0   == IndexOf(dict, key)
      new    == ~isnull /\ idx0 = 0
      d1     == IF new THEN Append(dict, key) ELSE dict
      p1     == IF new THEN Append(part, EmptyP(kernel)) ELSE part
      z1     == IF new THEN Append(ksz, 0) ELSE ksz
      g      == IF new THEN Len(d1) ELSE idx0
  IN  /\ dict' = d1
      /\ IF ~isnull /\ sel
         THEN /\ part' = [p1 EXCEPT ![g] = Step(kernel, @, v)]
              /\ ksz' = [z1 EXCEPT ![g] = @ + 1]
         ELSE /\ part' = p1
              /\ ksz' = z1
      /\ rowlog' = Append(rowlog, [key |-> key, v |-> v, sel |-> sel])
      /\ UNCHANGED kernel

-----------------------------------------------------------------------------
(* Ordering of labels.  rank[j] is the sequence of ids of component j in    *)
(* ascending order (category order for categoricals).                       *)
RankOf(rank, j, id) == IndexOf(rank[j], id)
RECURSIVE LexLess(_, _, _, _)
LexLess(rank, a, b, j) ==
  IF j > Len(a) THEN FALSE
  ELSE IF RankOf(rank, j, a[j]) < RankOf(rank, j, b[j]) THEN TRUE
  ELSE IF RankOf(rank, j, a[j]) > RankOf(rank, j, b[j]) THEN FALSE
  ELSE LexLess(rank, a, b, j + 1)

(* group indices in output order                                            *)
GroupOrder(sort, rank) ==
  LET idx == [g \in 1..Len(dict) |-> g]
  IN  IF sort THEN SortSeq(idx, LAMBDA x, y : LexLess(rank, dict[x], dict[y], 1)) ELSE idx

ValueOf(g) == ResultOf(kernel, part[g])
MeanOf(gsum, gcnt) == IF gcnt = 0 THEN NullRat ELSE Rat(gsum, gcnt)

IsObserved(g) == IF ObservedByValueCount THEN part[g].c > 0 ELSE ksz[g] > 0

(* the reduction result: sequence of group indices listed, in order          *)
Listed(oo, sort, rank) == SelectSeq(GroupOrder(sort, rank), LAMBDA g : (~oo) \/ IsObserved(g))

-----------------------------------------------------------------------------
(* Definitional side, from the history alone.                                *)
GroupValsH(key) == \* values of the selected rows carrying `key`, in row order
  LET pick == SelectSeq(rowlog, LAMBDA r : r.sel /\ r.key = key)
  IN  [j \in 1..Len(pick) |-> pick[j].v]
SelectedKeysH == {rowlog[j].key : j \in {jj \in 1..Len(rowlog) : rowlog[jj].sel /\ ~KeyIsNull(rowlog[jj].key)}}
AllKeysH == {rowlog[j].key : j \in {jj \in 1..Len(rowlog) : ~KeyIsNull(rowlog[jj].key)}}

-----------------------------------------------------------------------------
(* Model checking: rows are generated nondeterministically.                  *)
KeySpace == [1..NKeys -> LabelIds \cup {Null}]
Init == \E k \in KernelSet : CoreInit(k)
Row == /\ Len(rowlog) < MaxRows
       /\ \E key \in KeySpace, v \in Vals \cup {Null}, sel \in BOOLEAN : RowStepC(key, v, sel)
(* a positional mask may select an already factorized row again, in any order *)
Revisit == /\ Len(rowlog) < MaxRows
           /\ \E j \in 1..Len(rowlog), v \in Vals \cup {Null} : RedStepC(rowlog[j].key, v)
Next == Row \/ Revisit
Spec == Init /\ [][Next]_cvars

IdRank == [j \in 1..NKeys |-> SortSeq([i \in 1..Cardinality(LabelIds) |->
                                   CHOOSE x \in LabelIds : Cardinality({y \in LabelIds : y < x}) = i - 1],
                                  LAMBDA a, b : a < b)]

(* C01: values, labels, neutral results                                     *)
PartIsDef == \A g \in 1..Len(dict) :
                /\ ValueOf(g) = Def(kernel, GroupValsH(dict[g]))
                /\ ksz[g] = Len(GroupValsH(dict[g]))
LabelsExact == LET L == Listed(TRUE, TRUE, IdRank)
               IN  /\ {dict[L[j]] : j \in 1..Len(L)} = SelectedKeysH
                   /\ \A a, b \in 1..Len(L) : a < b => LexLess(IdRank, dict[L[a]], dict[L[b]], 1)
AllLabelsWhenUnobserved == LET L == Listed(FALSE, TRUE, IdRank)
                           IN  {dict[L[j]] : j \in 1..Len(L)} = AllKeysH
(* blow-up law behind the scaled replays of C03: repeating every row m times (here m = 2) multiplies   *)
(* size / count / sum by m and leaves min / max / first / last (and the mean) unchanged               *)
Rep2(s) == [j \in 1..(2 * Len(s)) |-> s[(j + 1) \div 2]]
BlowUp2 == \A g \in 1..Len(dict) :
             LET s == GroupValsH(dict[g]) IN
             Def(kernel, Rep2(s)) = (IF SumLike(kernel) THEN 2 * Def(kernel, s) ELSE Def(kernel, s))
DictDistinct == \A a, b \in 1..Len(dict) : a # b => dict[a] # dict[b]
NoNullLabel == \A g \in 1..Len(dict) : ~KeyIsNull(dict[g])
(* C06: a row with a null key (or an unselected row) changes no group state  *)
NullKeyStuttersC == [][\A key \in KeySpace :
                        (Len(rowlog') = Len(rowlog) + 1 /\ KeyIsNull(rowlog'[Len(rowlog')].key))
                          => (dict' = dict /\ part' = part /\ ksz' = ksz)]_cvars
=============================================================================
