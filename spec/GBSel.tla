------------------------------- MODULE GBSel -------------------------------
(***************************************************************************)
(* Row selection by a mask, "the way array indexing would" (C04, C05).      *)
(* Anchors: numba._group_func_wrap (slice -> view, bool -> nonzero,         *)
(* positions -> indexer with bounds check), core._resolve_mask_argument_... *)
(***************************************************************************)
EXTENDS Integers, Sequences

(* Row selection: "boolean, slice and positional masks select rows the way  *)
(* array indexing would".  Positions are 1-based here (TLA+ sequences);     *)
(* the trace carries 0-based Python values.                                  *)
None == -997    \* Python None in a slice field

(* Python slice.indices(n) for step > 0 and step < 0                         *)
ClampLo(x, n) == IF x < 0 THEN (IF x + n < 0 THEN 0 ELSE x + n) ELSE (IF x > n THEN n ELSE x)
ClampNeg(x, n) == IF x < 0 THEN (IF x + n < 0 THEN -1 ELSE x + n) ELSE (IF x >= n THEN n - 1 ELSE x)

RECURSIVE RangeSeq(_, _, _)
RangeSeq(a, b, st) == \* Python range(a, b, st) as a sequence
  IF (st > 0 /\ a >= b) \/ (st < 0 /\ a <= b) THEN <<>>
  ELSE <<a>> \o RangeSeq(a + st, b, st)

SliceIdx0(n, start, stop, step) == \* 0-based positions selected by slice(start, stop, step)
  LET st == IF step = None THEN 1 ELSE step
  IN  IF st > 0
      THEN LET a == IF start = None THEN 0 ELSE ClampLo(start, n)
               b == IF stop = None THEN n ELSE ClampLo(stop, n)
           IN  RangeSeq(a, b, st)
      ELSE LET a == IF start = None THEN n - 1 ELSE ClampNeg(start, n)
               b == IF stop = None THEN -1 ELSE ClampNeg(stop, n)
           IN  RangeSeq(a, b, st)

RECURSIVE BoolIdx0(_, _)
BoolIdx0(bits, i) == \* 0-based positions of the TRUE entries, ascending
  IF i > Len(bits) THEN <<>>
  ELSE (IF bits[i] = 1 THEN <<i - 1>> ELSE <<>>) \o BoolIdx0(bits, i + 1)

(* positional mask: negative positions count from the end (NumPy / numba    *)
(* wraparound); a position outside [-n, n) is an error.                      *)
PosOk(n, pos) == \A j \in 1..Len(pos) : pos[j] >= -n /\ pos[j] < n
PosIdx0(n, pos) == [j \in 1..Len(pos) |-> IF pos[j] < 0 THEN pos[j] + n ELSE pos[j]]

(* mask record: [k |-> "none" | "bool" | "slice" | "pos", ...]              *)
Sel0(n, m) ==
  CASE m.k = "none"  -> [j \in 1..n |-> j - 1]
    [] m.k = "bool"  -> BoolIdx0(m.b, 1)
    [] m.k = "slice" -> SliceIdx0(n, m.s[1], m.s[2], m.s[3])
    [] m.k = "pos"   -> PosIdx0(n, m.p)
=====================================================================================================================================================
