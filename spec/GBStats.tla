------------------------------- MODULE GBStats -------------------------------
(***************************************************************************)
(* Variance, apply and composite statistics (C16).                          *)
(*                                                                           *)
(* Anchors: core.GroupBy.var / std (sum of squares, sum, count kernels      *)
(* combined as (Q - S^2/n)/(n - ddof)), numba.group_sum_squares,            *)
(* GroupBy.apply / median / quantile, agg, ratio, subset_ratio, density.    *)
(*                                                                           *)
(* The machine accumulates (n, S, Q) row by row the way the three kernels   *)
(* do; the invariant is that the one-pass value equals the two-pass         *)
(* definition for every prefix.                                              *)
(***************************************************************************)
EXTENDS GBValues

CONSTANTS Vals, MaxRows
ValsNeg == -2 .. 3
VARIABLES n, S, Q, seq
tv == <<n, S, Q, seq>>

Init == n = 0 /\ S = 0 /\ Q = 0 /\ seq = <<>>
Row(v) == /\ seq' = Append(seq, v)
          /\ IF v = Null THEN UNCHANGED <<n, S, Q>>
             ELSE n' = n + 1 /\ S' = S + v /\ Q' = Q + v * v
Next == Len(seq) < MaxRows /\ \E v \in Vals \cup {Null} : Row(v)
Spec == Init /\ [][Next]_tv

OnePass(ddof) == IF n - ddof <= 0 THEN NullRat ELSE Rat(n * Q - S * S, n * (n - ddof))
AccIsDef == n = DefCount(seq) /\ S = DefSum(seq) /\ Q = DefSumSq(seq)
OnePassIsTwoPass == \A ddof \in {0, 1} :
   /\ OnePass(ddof) = TwoPassVarRat(seq, ddof)
   /\ OnePass(ddof) = DefVarRat(seq, ddof)
VarNonNegative == \A ddof \in {0, 1} : OnePass(ddof) = NullRat \/ OnePass(ddof)[1] >= 0

(* the function handed to apply() by the drivers, as an operator            *)
F(s) == DefSum(s) + 100 * Len(s) + 7 * DefCount(s)
=============================================================================
