------------------------- MODULE Trace_GBCumulative -------------------------
(***************************************************************************)
(* Trace validation for cumulative operations (C08, C05, C06).  One trace:   *)
(* one real GroupBy.cumsum/cummin/cummax/cumcount (or numba.cum...) call, one *)
(* RowCum action per input row, with the row's logged output as the         *)
(* observation.   T = [op, keys, vals, sel, res, hi?]                        *)
(***************************************************************************)
EXTENDS GBCumulative, Json, IOUtils, TLC, TLCExt

CONSTANT Diag
Traces == JsonDeserialize(IOEnv.TRACE_FILE)
VARIABLES tid, i
tvars == <<uvars, tid, i>>
T == Traces[tid]
N == Len(T.keys)

TraceInit == /\ tid \in 1..Len(Traces)
             /\ CumInit(Traces[tid].op)
             /\ i = 0

TraceRow == /\ T.out = "ok" /\ i < N /\ Len(T.res) = N /\ (IF "hi" \in DOMAIN T THEN Len(T.hi) = N ELSE TRUE)
            /\ RowCum(T.keys[i + 1], T.vals[i + 1], T.sel[i + 1] = 1)
            /\ i' = i + 1
            /\ (Diag \/ LET r == i + 1 IN
                          IF T.keys[r] = Null \/ T.sel[r] # 1 \/ (IF "judge" \in DOMAIN T THEN T.judge[r] = 0 ELSE FALSE) THEN TRUE
                          ELSE /\ T.res[r] = out'[r]
                               /\ (IF "hi" \in DOMAIN T /\ out'[r] # Null
                                   THEN T.hi[r] = run'[T.keys[r]].c ELSE TRUE))
            /\ UNCHANGED tid

TraceDone == /\ T.out = "ok" /\ i = N /\ Len(T.res) = N
             /\ i' = N + 1
             /\ IF Diag THEN PrintT(<<"EXPECT", tid, out>>) ELSE PrintT(<<"ACCEPT", tid>>)
             /\ UNCHANGED <<uvars, tid>>

TraceNext == TraceRow \/ TraceDone
TraceSpec == TraceInit /\ [][TraceNext]_tvars
TraceInv == PrefixIsDef
=============================================================================
