------------------------- MODULE Trace_GBCumulative -------------------------
(***************************************************************************)
(* Trace validation for cumulative operations (C08, C05, C06).  One trace:   *)
(* one real GroupBy.cumsum/cummin/cummax/cumcount (or numba.cum...) call, one *)
(* RowCum action per input row, with the row's logged output as the         *)
(* observation.   T = [op, keys, vals, sel, res, hi?]                        *)
(***************************************************************************)
EXTENDS GBCumulative, Json, IOUtils, TLC, TLCExt

CONSTANT Diag
Traces == JsonDeserialize(IOEnv.TRACE_FILE)
VARIABLES tid, i
tvars == <<uvars, tid, i>>
T == Traces[tid]
N == Len(T.keys)

TraceInit == /\ tid \in 1..Len(Traces)
             /\ CumInit(Traces[tid].op)
             /\ i = 0

(* long mode (groups of tens of thousands of rows: beyond 8-, 16-bit running counters): stepping the machine keeps the    *)
(* whole output and history in every state (quadratic), so the prefix definition is evaluated in closed form on a          *)
(* periodic input the trace must follow exactly: key = Null every 90th row, group 2 every 50th, group 1 otherwise;        *)
(* values 1 (cumsum: the running sum is the running count), or a 2 (cummax) / 1 (cummin) every 7th row.                  *)
IsLong == "long" \in DOMAIN T
KeyPat(r) == IF r % 90 = 0 THEN Null ELSE IF r % 50 = 0 THEN 2 ELSE 1
CntUpTo(g, m) == IF g = 2 THEN (m \div 50) - (m \div 450) ELSE m - (m \div 90) - ((m \div 50) - (m \div 450))
ValPat(r) == CASE T.op = "cummax" -> (IF r % 7 = 0 THEN 2 ELSE 1)
               [] T.op = "cummin" -> (IF r % 7 = 0 THEN 1 ELSE 2)
               [] OTHER -> 1
Thr(g) == IF g = 2 THEN 350 ELSE 7          \* first row of the group that is a multiple of 7
LongCumDef(r) == LET g == KeyPat(r) IN
  CASE T.op = "cumcount" -> CntUpTo(g, r) - 1
    [] T.op = "cumsum"   -> CntUpTo(g, r)
    [] T.op = "cummax"   -> (IF r >= Thr(g) THEN 2 ELSE 1)
    [] T.op = "cummin"   -> (IF r >= Thr(g) THEN 1 ELSE 2)
LongOk == /\ T.out = "ok" /\ Len(T.res) = N /\ Len(T.vals) = N /\ T.op \in {"cumcount", "cumsum", "cummax", "cummin"}
          /\ {r \in 1..N : ~(/\ T.keys[r] = KeyPat(r) /\ T.sel[r] = 1 /\ T.vals[r] = ValPat(r)
                             /\ (T.keys[r] = Null \/ T.res[r] = LongCumDef(r)))} = {}
TraceLong == /\ IsLong /\ i = 0 /\ LongOk
             /\ i' = N + 1
             /\ PrintT(<<"ACCEPT", tid>>)
             /\ UNCHANGED <<uvars, tid>>

TraceRow == /\ ~IsLong /\ T.out = "ok" /\ i < N /\ Len(T.res) = N /\ (IF "hi" \in DOMAIN T THEN Len(T.hi) = N ELSE TRUE)
            /\ RowCum(T.keys[i + 1], T.vals[i + 1], T.sel[i + 1] = 1)
            /\ i' = i + 1
            /\ (Diag \/ LET r == i + 1 IN
                          IF T.keys[r] = Null \/ T.sel[r] # 1 \/ (IF "judge" \in DOMAIN T THEN T.judge[r] = 0 ELSE FALSE) THEN TRUE
                          ELSE /\ T.res[r] = out'[r]
                               /\ (IF "hi" \in DOMAIN T /\ out'[r] # Null
                                   THEN T.hi[r] = run'[T.keys[r]].c ELSE TRUE))
            /\ UNCHANGED tid

TraceDone == /\ ~IsLong /\ T.out = "ok" /\ i = N /\ Len(T.res) = N
             /\ i' = N + 1
             /\ IF Diag THEN PrintT(<<"EXPECT", tid, out>>) ELSE PrintT(<<"ACCEPT", tid>>)
             /\ UNCHANGED <<uvars, tid>>

TraceNext == TraceRow \/ TraceDone \/ TraceLong
TraceSpec == TraceInit /\ [][TraceNext]_tvars
TraceInv == PrefixIsDef
=============================================================================
