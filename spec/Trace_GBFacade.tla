---------------------------- MODULE Trace_GBFacade ----------------------------
(***************************************************************************)
(* C17, structural clauses of the pandas-style facade: which columns a      *)
(* method returns.  T = [impl, expected, got]: columns used as keys are not *)
(* aggregated and a [] selection is honoured by every method, so the result *)
(* has exactly the selected value columns, in order.  (The contents of the  *)
(* columns -- facade, core engine and pandas alike -- are validated against *)
(* the common specification by Trace_GBCore / Trace_GBCumulative /          *)
(* Trace_GBRolling, iteration by Trace_GBFactorize.)                         *)
(* Anchors: api.BaseGroupBy methods, DataFrameGroupBy._from_by_keys,        *)
(* __getitem__, _values_to_group, __iter__.                                  *)
(***************************************************************************)
EXTENDS Integers, Sequences, Json, IOUtils, TLC, TLCExt
Traces == JsonDeserialize(IOEnv.TRACE_FILE)
VARIABLES tid, tpc
T == Traces[tid]
TraceInit == tid \in 1..Len(Traces) /\ tpc = "call"
TraceReturn == /\ tpc = "call" /\ T.out = "ok" /\ T.got = T.expected
               /\ PrintT(<<"ACCEPT", tid>>) /\ tpc' = "done" /\ UNCHANGED tid
TraceSpec == TraceInit /\ [][TraceReturn]_<<tid, tpc>>
=============================================================================
