---------------------------- MODULE Trace_GBFacade ----------------------------
(***************************************************************************)
(* C17, structural clauses of the pandas-style facade: which columns a      *)
(* method returns.  T = [impl, expected, got]: columns used as keys are not *)
(* aggregated and a [] selection is honoured by every method, so the result *)
(* has exactly the selected value columns, in order.  (The contents of the  *)
(* columns -- facade, core engine and pandas alike -- are validated against *)
(* the common specification by Trace_GBCore / Trace_GBCumulative /          *)
(* Trace_GBRolling, iteration by Trace_GBFactorize.)                         *)
(* Anchors: api.BaseGroupBy methods, DataFrameGroupBy._from_by_keys,        *)
(* __getitem__, _values_to_group, __iter__.                                  *)
(***************************************************************************)
EXTENDS Integers, Sequences, Json, IOUtils, TLC, TLCExt
Traces == JsonDeserialize(IOEnv.TRACE_FILE)
VARIABLES tid, tpc
T == Traces[tid]
TraceInit == tid \in 1..Len(Traces) /\ tpc = "call"
(* delegation clause (T.kind = "deleg"): the facade method returned exactly what the core grouping returns for the      *)
(* selected value columns (T.eq = 1: same labels, column names and numbers, as compared by the driver); the core            *)
(* operations themselves are specified by GBCore / GBSelect / GBEma / GBStats and judged by their own checks.              *)
(* A call the core engine itself refuses (T.out = "core_raise") is not a statement about the facade.                       *)
DelegationOk == IF "eq" \in DOMAIN T THEN (T.out = "core_raise" \/ T.eq = 1) ELSE TRUE
TraceReturn == /\ tpc = "call" /\ T.out \in {"ok", "core_raise"} /\ T.got = T.expected /\ DelegationOk
               /\ PrintT(<<"ACCEPT", tid>>) /\ tpc' = "done" /\ UNCHANGED tid
TraceSpec == TraceInit /\ [][TraceReturn]_<<tid, tpc>>
=============================================================================
