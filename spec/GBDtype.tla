------------------------------- MODULE GBDtype -------------------------------
(***************************************************************************)
(* The dtype of a value column on its way through one operation (C12).      *)
(*                                                                           *)
(* Anchors: util._val_to_numpy, to_arrow, _convert_timestamp_to_tz_unaware  *)
(* (container -> NumPy), util._cast_timestamps_to_ints (temporal values are *)
(* viewed as int64 and the original type remembered),                        *)
(* numba._build_target_for_groupby (accumulator dtype), numba._group_func_  *)
(* wrap / _apply_rolling / _apply_cumulative (view restored),               *)
(* core._convert_arr_to_pandas_series / _convert_arr_to_polars_series       *)
(* (original logical type restored, incl. time unit and time zone).         *)
(*                                                                           *)
(* A dtype is [k, w, unit, tz]: kind b/i/u/f/M/m, width in bits, time unit  *)
(* ("" for non temporal) and time zone name ("" = naive).  One call is    *)
(* input -> Normalise -> Compute(op) -> Restore -> output.                  *)
(***************************************************************************)
EXTENDS Integers, Sequences, FiniteSets

CONSTANTS RollViaFloat,        \* deviation: rolling extremes computed in float64 (timestamps rounded)
          CountKeepsTemporal,  \* deviation: the counts are cast back to the values' temporal dtype
          ForgetUnit,          \* deviation: the restored temporal type is always nanoseconds
          NarrowSum            \* deviation: integer sums accumulate in the input's width

Units == {"s", "ms", "us", "ns"}
NumDtypes == [k : {"i", "u"}, w : {8, 16, 32, 64}, unit : {""}, tz : {""}]
               \cup [k : {"f"}, w : {32, 64}, unit : {""}, tz : {""}]
               \cup [k : {"b"}, w : {8}, unit : {""}, tz : {""}]
TimeDtypes == [k : {"M"}, w : {64}, unit : Units, tz : {"", "Europe/Dublin"}] \cup [k : {"m"}, w : {64}, unit : Units, tz : {""}]
Dtypes == NumDtypes \cup TimeDtypes
I64 == [k |-> "i", w |-> 64, unit |-> "", tz |-> ""]
U64 == [k |-> "u", w |-> 64, unit |-> "", tz |-> ""]
F64 == [k |-> "f", w |-> 64, unit |-> "", tz |-> ""]

(* operation families                                                        *)
Selection == {"min", "max", "first", "last", "cummin", "cummax", "pick"}    \* pick = head / tail / nth
Ops == Selection \cup {"sum", "cumsum", "count", "mean", "shift", "rollext", "rollsum", "diff"}
IsTime(d) == d.k \in {"M", "m"}
IsInt(d) == d.k \in {"i", "u", "b"}

VARIABLES pc, op, inp, cur, orig, viaFloat
dvars == <<pc, op, inp, cur, orig, viaFloat>>

Init == /\ pc = "input" /\ op \in Ops /\ inp \in Dtypes
        /\ cur = inp /\ orig = inp /\ viaFloat = FALSE

(* container -> NumPy; temporal data are viewed as int64, the type is remembered *)
Normalise ==
  /\ pc = "input"
  /\ orig' = inp
  /\ cur' = IF IsTime(inp) THEN I64 ELSE inp
  /\ pc' = "normalised"
  /\ UNCHANGED <<op, inp, viaFloat>>

(* the kernel: dtype of the array it returns                                 *)
KernelOut(o, d) ==
  CASE o \in Selection -> d
    [] o \in {"sum", "cumsum", "rollsum"} ->
         IF IsInt(d) THEN (IF NarrowSum THEN d ELSE IF d.k = "u" THEN U64 ELSE I64) ELSE d
    [] o = "count" -> I64
    [] o = "mean" -> F64
    [] o = "shift" -> IF IsTime(orig) THEN d ELSE IF IsInt(d) THEN F64 ELSE d      \* a shifted row may be null
    [] o = "rollext" -> IF IsTime(orig) THEN d ELSE IF IsInt(d) THEN F64 ELSE d
    [] o = "diff" -> IF IsTime(orig) THEN d ELSE IF IsInt(d) THEN F64 ELSE d

Compute ==
  /\ pc = "normalised"
  /\ cur' = KernelOut(op, cur)
  /\ viaFloat' = (RollViaFloat /\ op = "rollext" /\ IsTime(orig))
  /\ pc' = "computed"
  /\ UNCHANGED <<op, inp, orig>>

(* the remembered type is restored for results that are values of the column *)
Restored(o, d) ==
  LET u == IF ForgetUnit THEN "ns" ELSE orig.unit IN
  IF ~IsTime(orig) THEN d
  ELSE CASE o = "count" -> IF CountKeepsTemporal THEN [orig EXCEPT !.unit = u] ELSE d
         [] o = "diff" -> [k |-> "m", w |-> 64, unit |-> u, tz |-> ""]        \* a difference of times is a duration
         [] o \in {"sum", "cumsum", "rollsum"} -> IF orig.k = "m" THEN [orig EXCEPT !.unit = u] ELSE d
         [] OTHER -> [orig EXCEPT !.unit = u]

Restore ==
  /\ pc = "computed"
  /\ cur' = Restored(op, cur)
  /\ pc' = "output"
  /\ UNCHANGED <<op, inp, orig, viaFloat>>

Next == Normalise \/ Compute \/ Restore
Spec == Init /\ [][Next]_dvars

-----------------------------------------------------------------------------
Done == pc = "output"
SelectionKeepsDtype == Done /\ op \in Selection => cur = inp
TemporalExact == Done /\ IsTime(inp) /\ op \in Selection \cup {"shift", "rollext"} => cur = inp /\ ~viaFloat
IntSumIs64 == Done /\ IsInt(inp) /\ op \in {"sum", "cumsum"} => cur.w = 64 /\ cur.k \in {"i", "u"}
CountIsNumber == Done /\ op = "count" => cur = I64
DiffIsDuration == Done /\ IsTime(inp) /\ op = "diff" => cur = [k |-> "m", w |-> 64, unit |-> inp.unit, tz |-> ""]
=============================================================================
