-------------------------------- MODULE GBEma --------------------------------
(***************************************************************************)
(* Exponential moving averages, grouped and ungrouped, plain and time       *)
(* weighted (C10), as a state machine in exact arithmetic.                  *)
(*                                                                           *)
(* Anchors (emas.py): _ema_adjusted, _ema_time_weighted, _ema_grouped,      *)
(* _ema_grouped_timed, ema, ema_grouped, _halflife_to_int; core.GroupBy.ema *)
(*                                                                           *)
(* Per group the kernels keep (residual, residual_weights, last output,     *)
(* last time).  Here residual = R / D and residual_weights = Wt / D with a  *)
(* common integer denominator D, so everything stays an integer.            *)
(* The decay per group row is beta = bn / bd (plain) or (1/2)^(dt / h)      *)
(* (time weighted; dt a multiple of the halflife h).                         *)
(***************************************************************************)
EXTENDS GBValues

CONSTANTS Groups, Vals, MaxRows, BetaSet, GapSet,   \* model checking domain
          MaskDecays,      \* deviation D10: an unselected row still decays the state (plain mode)
          NullKeyLeaks     \* deviation D7 : a null-key row updates some group's state

AllBetas == {<<0, 1>>, <<1, 4>>, <<1, 2>>, <<3, 4>>}   \* beta = 1 - alpha
TwoBetas == {<<1, 2>>, <<3, 4>>}
HalfBeta == {<<1, 2>>}

VARIABLES timed, bn, bd, stE, outE, histE
(* stE : [g -> [R, Wt, D, last, lt, seen, any]]                              *)
evars == <<timed, bn, bd, stE, outE, histE>>

EmptyE == [R |-> 0, Wt |-> 0, D |-> 1, last |-> NullRat, lt |-> 0, seen |-> FALSE, any |-> FALSE]

EmaInit(tm, n, d) == /\ timed = tm /\ bn = n /\ bd = d
                     /\ stE = [g \in Groups |-> EmptyE]
                     /\ outE = <<>> /\ histE = <<>>

RECURSIVE Pow(_, _)
Pow(b, e) == IF e = 0 THEN 1 ELSE b * Pow(b, e - 1)

(* decay the state by beta^e : R/D, Wt/D  ->  R*bn^e / (D*bd^e)              *)
Decay(s, n, d, e) == [s EXCEPT !.R = @ * Pow(n, e), !.Wt = @ * Pow(n, e), !.D = @ * Pow(d, e)]

(* a valid observation x: out = (x + residual) / (1 + weights)               *)
Observe(s, x) ==
  LET o == Rat(x * s.D + s.R, s.D + s.Wt)
  IN  [s EXCEPT !.R = @ + x * s.D, !.Wt = @ + s.D, !.last = o, !.seen = TRUE]

(* one group row of the plain (row counting) EMA: observe-or-repeat, then decay *)
StepPlain(s, x, valid) ==
  LET s1 == IF valid THEN Observe(s, x) ELSE s
  IN  Decay(s1, bn, bd, 1)

(* one group row of the time weighted EMA: decay by bn/bd = (1/2)^(time unit / halflife) per unit of the time elapsed   *)
(* since the group's previous row (1/2 for a halflife of one unit, 1/4 for half a unit), then observe-or-repeat       *)
StepTimed(s, x, valid, t) ==
  LET s0 == IF s.any THEN Decay(s, bn, bd, t - s.lt) ELSE s     \* no decay before the group's first row
      s1 == IF valid THEN Observe(s0, x) ELSE s0
  IN  [s1 EXCEPT !.lt = t, !.any = TRUE]

RowEma(k, x, sel, t) ==
  /\ histE' = Append(histE, [k |-> k, v |-> x, sel |-> sel, t |-> t])
  /\ UNCHANGED <<timed, bn, bd>>
  /\ IF k = Null
     THEN /\ outE' = Append(outE, <<Junk, 1>>)
          /\ stE' = IF NullKeyLeaks THEN [stE EXCEPT ![CHOOSE g \in Groups : TRUE] = StepPlain(@, 1, TRUE)] ELSE stE
     ELSE LET valid == sel /\ x # Null
              s == stE[k]
              s1 == IF timed THEN StepTimed(s, x, valid, t)
                    ELSE IF sel \/ MaskDecays THEN StepPlain(s, x, valid)
                    ELSE s                                  \* unselected row: a stutter
          IN  /\ stE' = [stE EXCEPT ![k] = s1]
              /\ outE' = Append(outE, IF valid THEN s1.last ELSE s.last)

-----------------------------------------------------------------------------
(* Definition: normalised exponentially weighted mean of the valid          *)
(* observations of the group up to row i.  age = group rows elapsed (plain; *)
(* unselected rows do not count) or elapsed time (timed).                    *)
GroupRowsE(i, g) == SelectSeq([j \in 1..i |-> j], LAMBDA j : histE[j].k = g /\ (histE[j].sel \/ timed))
ValidIdx(i, g) == SelectSeq([j \in 1..i |-> j], LAMBDA j : histE[j].k = g /\ histE[j].sel /\ histE[j].v # Null)
Age(i, j, g) == IF timed THEN histE[i].t - histE[j].t
                ELSE Len(SelectSeq(GroupRowsE(i, g), LAMBDA r : r > j))
RECURSIVE SumSeq(_, _)
SumSeq(f, n) == IF n = 0 THEN 0 ELSE f[n] + SumSeq(f, n - 1)
DefEma(i, g) ==
  LET vi == ValidIdx(i, g)
      n0 == bn
      d0 == bd
      maxage == IF vi = <<>> THEN 0 ELSE Age(i, vi[1], g)
      wnum == [x \in 1..Len(vi) |-> Pow(n0, Age(i, vi[x], g)) * Pow(d0, maxage - Age(i, vi[x], g))]
      num == SumSeq([x \in 1..Len(vi) |-> histE[vi[x]].v * wnum[x]], Len(vi))
      den == SumSeq(wnum, Len(vi))
  IN  IF vi = <<>> THEN NullRat ELSE Rat(num, den)
(* an invalid row repeats the previous output of its group                   *)
LastValidRow(i, g) == LET vi == ValidIdx(i, g) IN IF vi = <<>> THEN 0 ELSE vi[Len(vi)]
DefOut(i) == LET g == histE[i].k
                 lv == LastValidRow(i, g)
             IN  IF lv = 0 THEN NullRat ELSE DefEma(lv, g)
JudgedE(i) == histE[i].k # Null

Init == \E tm \in BOOLEAN : \E b \in BetaSet : EmaInit(tm, b[1], b[2])
Row == /\ Len(histE) < MaxRows
       /\ \E k \in Groups \cup {Null}, x \in Vals \cup {Null}, sel \in BOOLEAN, gap \in GapSet :
            RowEma(k, x, sel, (IF histE = <<>> THEN 0 ELSE histE[Len(histE)].t) + gap)
Next == Row
Spec == Init /\ [][Next]_evars

EmaIsDef == \A i \in 1..Len(histE) : JudgedE(i) => outE[i] = DefOut(i)   \* both in lowest terms
GroupsIndependent == [][\A g \in Groups :
                        (Len(histE') = Len(histE) + 1 /\ histE'[Len(histE')].k # g) => stE'[g] = stE[g]]_evars
=============================================================================
