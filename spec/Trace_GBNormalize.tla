--------------------------- MODULE Trace_GBNormalize ---------------------------
(***************************************************************************)
(* value_counts(normalize=True) (growth beyond the listed properties,       *)
(* exercised by C05): the normalised result is the un-normalised one        *)
(* divided by its total, label by label.  The un-normalised result of the   *)
(* same call is validated separately as a `size` trace of GBCore.           *)
(*   T = [counts : Seq(Int), norm : Seq(<<num, den>>) in lowest terms,       *)
(*        labels_same : 0/1]                                                 *)
(* Anchors: core.value_counts, GroupBy.size.                                 *)
(***************************************************************************)
EXTENDS GBValues, Json, IOUtils, TLCExt, TLC
Traces == JsonDeserialize(IOEnv.TRACE_FILE)
VARIABLES tid, tpc
T == Traces[tid]
RECURSIVE SumTo(_, _)
SumTo(s, n) == IF n = 0 THEN 0 ELSE s[n] + SumTo(s, n - 1)
Total == SumTo(T.counts, Len(T.counts))
Ok == /\ T.out = "ok"
      /\ T.labels_same = 1
      /\ Len(T.norm) = Len(T.counts)
      /\ (Len(T.counts) = 0 \/ Total > 0)
      /\ \A i \in 1..Len(T.counts) : T.norm[i] = Rat(T.counts[i], Total)
TraceInit == tid \in 1..Len(Traces) /\ tpc = "call"
TraceReturn == /\ tpc = "call" /\ Ok /\ PrintT(<<"ACCEPT", tid>>) /\ tpc' = "done" /\ UNCHANGED tid
TraceSpec == TraceInit /\ [][TraceReturn]_<<tid, tpc>>
=============================================================================
