--------------------------- MODULE Trace_GBRolling ---------------------------
(***************************************************************************)
(* Trace validation for rolling operations, shift and diff (C09, C05, C06). *)
(* One trace: one real GroupBy.rolling_sum/mean/min/max, shift or diff call *)
(* (or the numba-level function), one RowRoll action per input row with the *)
(* row's logged output as the observation.                                  *)
(*   T = [op, W, minp, keys, vals, sel, res, layout_ok?]                     *)
(***************************************************************************)
EXTENDS GBRolling, Json, IOUtils, TLC, TLCExt

CONSTANT Diag
Traces == JsonDeserialize(IOEnv.TRACE_FILE)
VARIABLES tid, i
tvars == <<rvars, tid, i>>
T == Traces[tid]
N == Len(T.keys)

TraceInit == /\ tid \in 1..Len(Traces)
             /\ RollInit(Traces[tid].op, Traces[tid].W, Traces[tid].minp)
             /\ i = 0

TraceRow == /\ T.out = "ok" /\ i < N /\ Len(T.res) = N /\ (IF "hi" \in DOMAIN T THEN Len(T.hi) = N ELSE TRUE)
            /\ RowRoll(T.keys[i + 1], T.vals[i + 1], T.sel[i + 1] = 1)
            /\ i' = i + 1
            /\ (Diag \/ LET r == i + 1 IN
                          IF T.keys[r] = Null \/ T.sel[r] # 1 \/ (IF "judge" \in DOMAIN T THEN T.judge[r] = 0 ELSE FALSE) THEN TRUE
                          ELSE T.res[r] = out'[r])
            /\ UNCHANGED tid

TraceDone == /\ T.out = "ok" /\ i = N /\ Len(T.res) = N
             /\ (IF "layout_ok" \in DOMAIN T THEN T.layout_ok = 1 ELSE TRUE)
             /\ i' = N + 1
             /\ IF Diag THEN PrintT(<<"EXPECT", tid, out>>) ELSE PrintT(<<"ACCEPT", tid>>)
             /\ UNCHANGED <<rvars, tid>>

TraceNext == TraceRow \/ TraceDone
TraceSpec == TraceInit /\ [][TraceNext]_tvars
TraceInv == WindowIsDef
=============================================================================
