--------------------------- MODULE Trace_GBRolling ---------------------------
(***************************************************************************)
(* Trace validation for rolling operations, shift and diff (C09, C05, C06). *)
(* One trace: one real GroupBy.rolling_sum/mean/min/max, shift or diff call *)
(* (or the numba-level function), one RowRoll action per input row with the *)
(* row's logged output as the observation.                                  *)
(*   T = [op, W, minp, keys, vals, sel, res, layout_ok?]                     *)
(***************************************************************************)
EXTENDS GBRolling, Json, IOUtils, TLC, TLCExt

CONSTANT Diag
Traces == JsonDeserialize(IOEnv.TRACE_FILE)
VARIABLES tid, i
tvars == <<rvars, tid, i>>
T == Traces[tid]
N == Len(T.keys)

TraceInit == /\ tid \in 1..Len(Traces)
             /\ RollInit(Traces[tid].op, IF "long" \in DOMAIN Traces[tid] THEN 1 ELSE Traces[tid].W, Traces[tid].minp)   \* (long mode does not step the machine)
             /\ i = 0

(* long mode (one group of tens of thousands of rows, every row selected, no null value): the row-by-row replay with  *)
(* its history is quadratic, so the definition is evaluated directly on the logged sequences (counter widths 2^15,     *)
(* 2^16 of the kernels are out of reach of the small model).                                                           *)
IsLong == "long" \in DOMAIN T
RECURSIVE SumRange(_, _, _)
SumRange(v, a, b) == IF a > b THEN 0 ELSE v[a] + SumRange(v, a + 1, b)
RECURSIVE MaxRange(_, _, _)
MaxRange(v, a, b) == IF a = b THEN v[a] ELSE LET m == MaxRange(v, a + 1, b) IN IF v[a] > m THEN v[a] ELSE m
RECURSIVE MinRange(_, _, _)
MinRange(v, a, b) == IF a = b THEN v[a] ELSE LET m == MinRange(v, a + 1, b) IN IF v[a] < m THEN v[a] ELSE m
LongDef(r) ==
  LET TW == T.W IN
  CASE T.op = "shift" -> IF r <= TW THEN Null ELSE T.vals[r - TW]
    [] T.op = "diff"  -> IF r <= TW THEN Null ELSE T.vals[r] - T.vals[r - TW]
    [] T.op = "sum"   -> IF r < T.minp THEN Null ELSE SumRange(T.vals, IF r > TW THEN r - TW + 1 ELSE 1, r)
    [] T.op = "max"   -> IF r < T.minp THEN Null ELSE MaxRange(T.vals, IF r > TW THEN r - TW + 1 ELSE 1, r)
    [] T.op = "min"   -> IF r < T.minp THEN Null ELSE MinRange(T.vals, IF r > TW THEN r - TW + 1 ELSE 1, r)
(* long WINDOWS (window of 2^15 rows and more): the values follow the periodic pattern v[r] = 2 if P divides r, else 1,  *)
(* so that the window definition has a closed form (number of multiples of P in the window) and stays cheap to evaluate  *)
IsLongWin == "period" \in DOMAIN T
LWDef(r) ==
  LET TW == T.W
      P == T.period
      lo == IF r > TW THEN r - TW ELSE 0                 \* the window is rows lo+1 .. r
      len == r - lo
      cnt == (r \div P) - (lo \div P)                     \* rows holding a 2
  IN  CASE T.op = "sum"   -> IF len < T.minp THEN Null ELSE len + cnt
        [] T.op = "max"   -> IF len < T.minp THEN Null ELSE (IF cnt > 0 THEN 2 ELSE 1)
        [] T.op = "min"   -> IF len < T.minp THEN Null ELSE (IF len > cnt THEN 1 ELSE 2)
        [] T.op = "shift" -> IF r <= TW THEN Null ELSE T.vals[r - TW]
        [] T.op = "diff"  -> IF r <= TW THEN Null ELSE T.vals[r] - T.vals[r - TW]
LongWinOk == /\ T.out = "ok" /\ Len(T.res) = N /\ Len(T.vals) = N /\ T.period > 1
             /\ T.op \in {"shift", "diff", "sum", "max", "min"}
             \* (a set of offending rows, not \A: TLC evaluates a quantified conjunct of an action recursively, one frame per row)
             /\ {r \in 1..N : ~(/\ T.keys[r] = 1 /\ T.sel[r] = 1
                                /\ T.vals[r] = (IF r % T.period = 0 THEN 2 ELSE 1)
                                /\ T.res[r] = LWDef(r))} = {}
LongOk == /\ ~IsLongWin /\ T.out = "ok" /\ Len(T.res) = N /\ Len(T.vals) = N
          /\ T.op \in {"shift", "diff", "sum", "max", "min"}
          /\ {r \in 1..N : ~(T.keys[r] = 1 /\ T.sel[r] = 1 /\ T.res[r] = LongDef(r))} = {}
TraceLong == /\ IsLong /\ i = 0 /\ (LongOk \/ (IsLongWin /\ LongWinOk))
             /\ i' = N + 1
             /\ PrintT(<<"ACCEPT", tid>>)
             /\ UNCHANGED <<rvars, tid>>

TraceRow == /\ ~IsLong /\ T.out = "ok" /\ i < N /\ Len(T.res) = N /\ (IF "hi" \in DOMAIN T THEN Len(T.hi) = N ELSE TRUE)
            /\ RowRoll(T.keys[i + 1], T.vals[i + 1], T.sel[i + 1] = 1)
            /\ i' = i + 1
            /\ (Diag \/ LET r == i + 1 IN
                          IF T.keys[r] = Null \/ T.sel[r] # 1 \/ (IF "judge" \in DOMAIN T THEN T.judge[r] = 0 ELSE FALSE) THEN TRUE
                          ELSE T.res[r] = out'[r])
            /\ UNCHANGED tid

TraceDone == /\ ~IsLong /\ T.out = "ok" /\ i = N /\ Len(T.res) = N
             /\ (IF "layout_ok" \in DOMAIN T THEN T.layout_ok = 1 ELSE TRUE)
             /\ i' = N + 1
             /\ IF Diag THEN PrintT(<<"EXPECT", tid, out>>) ELSE PrintT(<<"ACCEPT", tid>>)
             /\ UNCHANGED <<rvars, tid>>

TraceNext == TraceRow \/ TraceDone \/ TraceLong
TraceSpec == TraceInit /\ [][TraceNext]_tvars
TraceInv == WindowIsDef
=============================================================================
