--------------------------- MODULE Trace_GBDtype ---------------------------
(***************************************************************************)
(* Trace validation for the dtype clauses of C12.  One trace: one real call *)
(* with the logical dtype of the value column as supplied (whatever the     *)
(* container: NumPy, pandas NumPy-/Arrow-backed, polars, pyarrow) and the   *)
(* logical dtype of the result.                                              *)
(*   T = [fam (operation family), idt, odt : [k, w, unit, tz]]               *)
(* The call is replayed through GBDtype's three steps; where the property   *)
(* states the result dtype the observed one must be the machine's.           *)
(***************************************************************************)
EXTENDS GBDtype, Json, IOUtils, TLCExt, TLC
Traces == JsonDeserialize(IOEnv.TRACE_FILE)
VARIABLES tid
tvars == <<dvars, tid>>
T == Traces[tid]
Rec(d) == [k |-> d.k, w |-> d.w, unit |-> d.unit, tz |-> d.tz]

TraceInit == /\ tid \in 1..Len(Traces)
             /\ pc = "input" /\ op = Traces[tid].fam /\ inp = Rec(Traces[tid].idt)
             /\ cur = inp /\ orig = inp /\ viaFloat = FALSE

(* the clauses of the property that state a result dtype                     *)
Stated == \/ op \in Selection
          \/ (IsTime(inp) /\ op \in {"shift", "rollext", "diff"})
          \/ (IsInt(inp) /\ op \in {"sum", "cumsum"})
          \/ op = "count"

TraceStep == Next /\ UNCHANGED tid
TraceDone == /\ pc = "output"
             /\ op \in Ops
             /\ (Stated => Rec(T.odt) = cur)
             /\ (Stated /\ IsTime(inp) /\ "exact" \in DOMAIN T => (T.exact = 1) = ~viaFloat)
             /\ PrintT(<<"ACCEPT", tid>>)
             /\ pc' = "accepted"
             /\ UNCHANGED <<op, inp, cur, orig, viaFloat, tid>>
TraceSpec == TraceInit /\ [][TraceStep \/ TraceDone]_tvars
TraceInv == SelectionKeepsDtype /\ TemporalExact /\ IntSumIs64 /\ CountIsNumber /\ DiffIsDuration
=============================================================================
