--------------------------- MODULE Trace_GBMemory ---------------------------
(***************************************************************************)
(* Trace validation for C19.  One trace: one real grouping object, its      *)
(* caller-side inputs, and a history of calls / writes through results      *)
(* (/ harness-side cache corruptions in the binding runs).  After every     *)
(* step the driver logs what it observed against a fresh grouping built     *)
(* from pristine copies of the inputs:                                       *)
(*   call    [op, alias (buffers the result is a writable alias of),        *)
(*            dirty (buffers that differ from pristine), eq]                 *)
(*   mutate  [r (index of the result written through), dirty]               *)
(*   corrupt [b, dirty]                                                      *)
(* Every observed effect must be one the specification allows: the alias    *)
(* set must be allowed for the operation class, every dirty buffer must be  *)
(* dirty in the specification's state, and a call whose result differs      *)
(* from the fresh grouping's must read a dirty buffer.                       *)
(***************************************************************************)
EXTENDS GBMemory, Json, IOUtils, TLCExt, TLC
Traces == JsonDeserialize(IOEnv.TRACE_FILE)
VARIABLES tid, l
tvars == <<mvars, tid, l>>
T == Traces[tid]
ToSet(s) == {s[i] : i \in 1..Len(s)}

TraceInit == /\ tid \in 1..Len(Traces) /\ Init /\ l = 1

TraceCall(e) ==
  /\ e.op \in Ops
  /\ ToSet(e.alias) \subseteq Buffers
  /\ \E wr \in SUBSET AllowedWrites(e.op) : Call(e.op, ToSet(e.alias), wr)
  /\ ToSet(e.dirty) \subseteq dirty'
  /\ (e.eq = 0 => ~results'[Len(results')].clean)
TraceMutate(e) == /\ Mutate(e.r) /\ ToSet(e.dirty) \subseteq dirty'
TraceCorrupt(e) == /\ e.b \in Derived /\ Corrupt(e.b) /\ ToSet(e.dirty) \subseteq dirty'

TraceStep == /\ l <= Len(T.ev)
             /\ LET e == T.ev[l] IN
                IF e.e = "call" THEN TraceCall(e)
                ELSE IF e.e = "mutate" THEN TraceMutate(e)
                ELSE TraceCorrupt(e)
             /\ l' = l + 1
             /\ UNCHANGED tid
TraceDone == /\ l = Len(T.ev) + 1
             /\ PrintT(<<"ACCEPT", tid>>)
             /\ l' = l + 1
             /\ UNCHANGED <<mvars, tid>>
TraceNext == TraceStep \/ TraceDone
TraceSpec == TraceInit /\ [][TraceNext]_tvars
=============================================================================
