---------------------------- MODULE GBCumulative ----------------------------
(***************************************************************************)
(* Cumulative group operations (C08) as a state machine.                    *)
(*                                                                           *)
(* Anchors: numba._cumulative_reduce (group_last_seen, group_count, target  *)
(* read-back), _apply_cumulative (skip_na -> nan-variant, null-key post     *)
(* fill), cumsum / cumcount / cummin / cummax, GroupBy.cum*.                *)
(*                                                                           *)
(* Per group the kernel keeps the running partial (value at the group's     *)
(* last selected row, count).  A row with a null key or an unselected row   *)
(* changes no group's state.                                                 *)
(***************************************************************************)
EXTENDS GBValues

CONSTANTS Groups,      \* label ids
          Vals,        \* non-null values        (model checking only)
          MaxRows,     \*                         (model checking only)
          OpSet,       \* subset of CumOps        (model checking only)
          StateLeaks   \* deviation: a null-key row updates some group (negative config)

CumOps == {"cumsum", "cumsum_na", "cummin", "cummax", "cumcount"}
\* "cumsum_na" = cumsum with skip_na = FALSE: a null poisons the running sum

VARIABLES op, run, out, hist
(* run  : [g -> partial]   running partial per group                        *)
(* out  : Seq(value)       one output per consumed row                      *)
(* hist : Seq([k, v, sel]) consumed rows                                    *)
uvars == <<op, run, out, hist>>

KernelOfCum(o) == CASE o = "cumsum" -> "sum" [] o = "cumsum_na" -> "sum"
                    [] o = "cummin" -> "min" [] o = "cummax" -> "max" [] o = "cumcount" -> "size"

Poison == -996   \* "null from here on" for the non-skipping sum

StepCum(o, p, v) ==
  IF o = "cumsum_na"
  THEN (IF p.a = Poison \/ IsNull(v) THEN [a |-> Poison, c |-> p.c + 1]
        ELSE [a |-> (IF p.c > 0 THEN p.a ELSE 0) + v, c |-> p.c + 1])
  ELSE Step(KernelOfCum(o), p, v)

OutOf(o, p) == IF o = "cumcount" THEN p.c - 1
               ELSE IF p.a = Poison THEN Null ELSE p.a

CumInit(o) == /\ op = o
              /\ run = [g \in Groups |-> EmptyP(KernelOfCum(o))]
              /\ out = <<>>
              /\ hist = <<>>

(* the value an unjudged row shows is irrelevant: the machine records Junk   *)
RowCum(k, v, sel) ==
  /\ hist' = Append(hist, [k |-> k, v |-> v, sel |-> sel])
  /\ UNCHANGED op
  /\ IF k = Null
     THEN /\ out' = Append(out, Junk)
          /\ run' = IF StateLeaks THEN [run EXCEPT ![CHOOSE g \in Groups : TRUE] = StepCum(op, @, v)] ELSE run
     ELSE IF ~sel
     THEN /\ out' = Append(out, Junk)
          /\ UNCHANGED run
     ELSE LET p == StepCum(op, run[k], v)
          IN  /\ run' = [run EXCEPT ![k] = p]
              /\ out' = Append(out, OutOf(op, p))

-----------------------------------------------------------------------------
(* definition: prefix reduction over the group's selected rows               *)
PrefixVals(i, g) == LET idx == SelectSeq([j \in 1..i |-> j], LAMBDA j : hist[j].k = g /\ hist[j].sel)
                    IN  [x \in 1..Len(idx) |-> hist[idx[x]].v]
DefCum(o, s) ==
  CASE o = "cumsum"    -> DefSum(s)
    [] o = "cumsum_na" -> IF \E j \in 1..Len(s) : IsNull(s[j]) THEN Null ELSE DefSum(s)
    [] o = "cummin"    -> DefMin(s)
    [] o = "cummax"    -> DefMax(s)
    [] o = "cumcount"  -> Len(s) - 1
Judged(i) == hist[i].k # Null /\ hist[i].sel

Init == \E o \in OpSet : CumInit(o)
Row == /\ Len(hist) < MaxRows
       /\ \E k \in Groups \cup {Null}, v \in Vals \cup {Null}, sel \in BOOLEAN : RowCum(k, v, sel)
Next == Row
Spec == Init /\ [][Next]_uvars

PrefixIsDef == \A i \in 1..Len(hist) : Judged(i) => out[i] = DefCum(op, PrefixVals(i, hist[i].k))
(* the last cumulative value of a group is the group reduction (ties C08 to C01) *)
LastIsReduction == \A g \in Groups :
   LET s == PrefixVals(Len(hist), g) IN
   (s # <<>> /\ op \in {"cumsum", "cummin", "cummax"}) =>
       OutOf(op, run[g]) = Def(KernelOfCum(op), s)
(* values of other groups never enter; null-key and unselected rows are stutters *)
OnlyOwnGroup == [][\A g \in Groups :
                    (Len(hist') = Len(hist) + 1 /\
                     (hist'[Len(hist')].k # g \/ ~hist'[Len(hist')].sel)) => run'[g] = run[g]]_uvars
=============================================================================
