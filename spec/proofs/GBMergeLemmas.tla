--------------------------- MODULE GBMergeLemmas ---------------------------
(***************************************************************************)
(* TLAPS supplement to C04: the scalar merge algebra of the group kernels   *)
(* over UNBOUNDED integers (TLC checks GBReduce / GBChunked for values in a *)
(* small set and at most 7-8 rows).                                          *)
(*                                                                           *)
(* A partial is [a |-> accumulator, c |-> count]; Step is what a kernel     *)
(* does with one more value of the group, Merge is how the partial of a     *)
(* later block is folded into the partial of the earlier rows               *)
(* (GBValues!Step / GBValues!Merge, i.e. numba.ScalarFuncs.* and            *)
(* reduce_array_pair with the accumulated count).  For each kernel:         *)
(*   Homomorphism   Step(Merge(p, q), v) = Merge(p, Step(q, v))             *)
(*   RightIdentity  Merge(p, Empty) = p                                     *)
(*   LeftIdentity   Merge(Empty, q) = q                                     *)
(* With single-pass(rows) = fold of Step from Empty these three give, by    *)
(* induction on the length of the last block, that reducing any split into  *)
(* consecutive blocks and merging equals the single pass -- for every       *)
(* length, every split, every integer value (the induction is the paper     *)
(* argument; TLC confirms it for all splits of up to 8 rows).               *)
(***************************************************************************)
EXTENDS Integers, TLAPS

Null == -999
Val == Int \ {Null}                       \* a non-null value
Max2(x, y) == IF x >= y THEN x ELSE y
Min2(x, y) == IF x <= y THEN x ELSE y

(* well-formed partials of the selection kernels (min / max / first): no value seen <=> accumulator null *)
WF(p) == /\ p = [a |-> p.a, c |-> p.c]
         /\ p.c \in Nat
         /\ (p.c = 0 => p.a = Null)
         /\ (p.c > 0 => p.a \in Val)
Empty == [a |-> Null, c |-> 0]

StepMax(p, v) == IF v = Null THEN p
                 ELSE IF p.c > 0 THEN [a |-> Max2(p.a, v), c |-> p.c + 1] ELSE [a |-> v, c |-> 1]
MergeMax(p, q) == [a |-> IF q.a = Null THEN p.a ELSE IF p.c > 0 THEN Max2(p.a, q.a) ELSE q.a, c |-> p.c + q.c]

StepMin(p, v) == IF v = Null THEN p
                 ELSE IF p.c > 0 THEN [a |-> Min2(p.a, v), c |-> p.c + 1] ELSE [a |-> v, c |-> 1]
MergeMin(p, q) == [a |-> IF q.a = Null THEN p.a ELSE IF p.c > 0 THEN Min2(p.a, q.a) ELSE q.a, c |-> p.c + q.c]

StepFirst(p, v) == IF v = Null THEN p
                   ELSE IF p.c > 0 THEN [a |-> p.a, c |-> p.c + 1] ELSE [a |-> v, c |-> 1]
MergeFirst(p, q) == [a |-> IF q.a = Null THEN p.a ELSE IF p.c > 0 THEN p.a ELSE q.a, c |-> p.c + q.c]

(* sums: the accumulator of an empty partial is 0 *)
WFS(p) == /\ p = [a |-> p.a, c |-> p.c] /\ p.c \in Nat /\ p.a \in Int /\ (p.c = 0 => p.a = 0)
EmptyS == [a |-> 0, c |-> 0]
StepSum(p, v) == IF v = Null THEN p
                 ELSE IF p.c > 0 THEN [a |-> p.a + v, c |-> p.c + 1] ELSE [a |-> v, c |-> 1]
MergeSum(p, q) == [a |-> IF p.c > 0 THEN p.a + q.a ELSE q.a, c |-> p.c + q.c]

-----------------------------------------------------------------------------
THEOREM MaxHom == ASSUME NEW p, NEW q, NEW v \in Int, WF(p), WF(q)
                  PROVE  StepMax(MergeMax(p, q), v) = MergeMax(p, StepMax(q, v))
  BY DEF StepMax, MergeMax, WF, Max2, Val, Null
THEOREM MaxWF == ASSUME NEW p, NEW v \in Int, WF(p) PROVE WF(StepMax(p, v))
  BY DEF StepMax, WF, Max2, Val, Null
THEOREM MaxMergeWF == ASSUME NEW p, NEW q, WF(p), WF(q) PROVE WF(MergeMax(p, q))
  BY DEF MergeMax, WF, Max2, Val, Null
THEOREM MaxRightId == ASSUME NEW p, WF(p) PROVE MergeMax(p, Empty) = p
  BY DEF MergeMax, WF, Empty, Null
THEOREM MaxLeftId == ASSUME NEW q, WF(q) PROVE MergeMax(Empty, q) = q
  BY DEF MergeMax, WF, Empty, Val, Null
THEOREM MaxAssoc == ASSUME NEW p, NEW q, NEW r, WF(p), WF(q), WF(r)
                    PROVE  MergeMax(MergeMax(p, q), r) = MergeMax(p, MergeMax(q, r))
  BY DEF MergeMax, WF, Max2, Val, Null

THEOREM MinHom == ASSUME NEW p, NEW q, NEW v \in Int, WF(p), WF(q)
                  PROVE  StepMin(MergeMin(p, q), v) = MergeMin(p, StepMin(q, v))
  BY DEF StepMin, MergeMin, WF, Min2, Val, Null
THEOREM MinRightId == ASSUME NEW p, WF(p) PROVE MergeMin(p, Empty) = p
  BY DEF MergeMin, WF, Empty, Null
THEOREM MinLeftId == ASSUME NEW q, WF(q) PROVE MergeMin(Empty, q) = q
  BY DEF MergeMin, WF, Empty, Val, Null
THEOREM MinAssoc == ASSUME NEW p, NEW q, NEW r, WF(p), WF(q), WF(r)
                    PROVE  MergeMin(MergeMin(p, q), r) = MergeMin(p, MergeMin(q, r))
  BY DEF MergeMin, WF, Min2, Val, Null

THEOREM FirstHom == ASSUME NEW p, NEW q, NEW v \in Int, WF(p), WF(q)
                    PROVE  StepFirst(MergeFirst(p, q), v) = MergeFirst(p, StepFirst(q, v))
  BY DEF StepFirst, MergeFirst, WF, Val, Null
THEOREM FirstRightId == ASSUME NEW p, WF(p) PROVE MergeFirst(p, Empty) = p
  BY DEF MergeFirst, WF, Empty, Null
THEOREM FirstLeftId == ASSUME NEW q, WF(q) PROVE MergeFirst(Empty, q) = q
  BY DEF MergeFirst, WF, Empty, Val, Null

THEOREM SumHom == ASSUME NEW p, NEW q, NEW v \in Int, WFS(p), WFS(q)
                  PROVE  StepSum(MergeSum(p, q), v) = MergeSum(p, StepSum(q, v))
  BY DEF StepSum, MergeSum, WFS, Null
THEOREM SumRightId == ASSUME NEW p, WFS(p) PROVE MergeSum(p, EmptyS) = p
  BY DEF MergeSum, WFS, EmptyS
THEOREM SumLeftId == ASSUME NEW q, WFS(q) PROVE MergeSum(EmptyS, q) = q
  BY DEF MergeSum, WFS, EmptyS
THEOREM SumAssoc == ASSUME NEW p, NEW q, NEW r, WFS(p), WFS(q), WFS(r)
                    PROVE  MergeSum(MergeSum(p, q), r) = MergeSum(p, MergeSum(q, r))
  BY DEF MergeSum, WFS

(* the deviation of D5 (merge with the count fixed to 1, i.e. "p.c > 0" replaced by TRUE) is NOT a homomorphism:       *)
(* MergeMaxDev(Empty, q) = [a |-> Max2(Null, q.a), ...] -- stated as a counterexample instance                          *)
MergeMaxDev(p, q) == [a |-> IF q.a = Null THEN p.a ELSE Max2(p.a, q.a), c |-> p.c + q.c]
THEOREM DevBreaksLeftId == MergeMaxDev(Empty, [a |-> -1000, c |-> 1]) # [a |-> -1000, c |-> 1]
  BY DEF MergeMaxDev, Empty, Max2, Null
=============================================================================
