--------------------------- MODULE GBGatherProof ---------------------------
(***************************************************************************)
(* TLAPS supplement to C03: util.parallel_map gathers by submission index,  *)
(* for ANY number of tasks and any completion order (TLC checks GBParallel  *)
(* for at most 5 tasks).  The actions below are those of GBParallel that    *)
(* touch status / results / pc (Inline, Start, Finish, Collect, Return),    *)
(* transcribed without the worker bound and the FIFO guard, i.e. with MORE  *)
(* behaviours, so the invariant proved here holds for GBParallel a fortiori.*)
(***************************************************************************)
EXTENDS Integers, TLAPS

CONSTANT Raises            \* the set of raising tasks (any set)
VARIABLES ntasks, status, results, pc
vars == <<ntasks, status, results, pc>>
F(i) == 100 + i
None == -1
Tasks == 1..ntasks

Init == /\ ntasks \in Nat \ {0}
        /\ status = [i \in 1..ntasks |-> "queued"]
        /\ results = [i \in 1..ntasks |-> None]
        /\ pc = "running"
Inline == /\ pc = "running" /\ ntasks = 1 /\ status[1] = "queued"
          /\ status' = [status EXCEPT ![1] = "collected"]
          /\ IF 1 \in Raises THEN pc' = "raised" /\ UNCHANGED results
                             ELSE pc' = "returned" /\ results' = [results EXCEPT ![1] = F(1)]
          /\ UNCHANGED ntasks
Start(i) == /\ ntasks > 1 /\ status[i] = "queued" /\ status' = [status EXCEPT ![i] = "running"]
            /\ UNCHANGED <<ntasks, results, pc>>
Finish(i) == /\ status[i] = "running" /\ status' = [status EXCEPT ![i] = "finished"]
             /\ UNCHANGED <<ntasks, results, pc>>
Collect(i) == /\ pc = "running" /\ ntasks > 1 /\ status[i] = "finished"
              /\ status' = [status EXCEPT ![i] = "collected"]
              /\ IF i \in Raises THEN pc' = "raised" /\ UNCHANGED results
                                 ELSE results' = [results EXCEPT ![i] = F(i)] /\ UNCHANGED pc
              /\ UNCHANGED ntasks
Return == /\ pc = "running" /\ ntasks > 1 /\ \A i \in Tasks : status[i] = "collected"
          /\ pc' = "returned" /\ UNCHANGED <<ntasks, status, results>>
Next == Inline \/ (\E i \in Tasks : Start(i) \/ Finish(i) \/ Collect(i)) \/ Return
Spec == Init /\ [][Next]_vars

TypeOK == /\ ntasks \in Nat \ {0}
          /\ status \in [1..ntasks -> {"queued", "running", "finished", "collected"}]
          /\ results \in [1..ntasks -> Int]
          /\ pc \in {"running", "returned", "raised"}
(* what has been collected from a task that did not raise sits at the task's own index; a raiser is collected only by *)
(* the step that ends the call with "raised"                                                                           *)
Inv == /\ TypeOK
       /\ \A i \in Tasks : (status[i] = "collected" /\ i \notin Raises) => results[i] = F(i)
       /\ pc # "raised" => \A i \in Tasks : status[i] = "collected" => i \notin Raises
       /\ pc = "returned" => \A i \in Tasks : status[i] = "collected"
GatheredByIndex == pc = "returned" => \A i \in Tasks : results[i] = F(i)

THEOREM InitInv == Init => Inv
  BY DEF Init, Inv, TypeOK, Tasks, None
THEOREM NextInv == Inv /\ [Next]_vars => Inv'
<1> SUFFICES ASSUME Inv, [Next]_vars PROVE Inv' OBVIOUS
<1>1. CASE Inline
  BY <1>1 DEF Inline, Inv, TypeOK, Tasks, F
<1>2. ASSUME NEW i \in Tasks, Start(i) PROVE Inv'
  BY <1>2 DEF Start, Inv, TypeOK, Tasks
<1>3. ASSUME NEW i \in Tasks, Finish(i) PROVE Inv'
  BY <1>3 DEF Finish, Inv, TypeOK, Tasks
<1>4. ASSUME NEW i \in Tasks, Collect(i) PROVE Inv'
  BY <1>4 DEF Collect, Inv, TypeOK, Tasks, F
<1>5. CASE Return
  BY <1>5 DEF Return, Inv, TypeOK, Tasks
<1>6. CASE UNCHANGED vars
  BY <1>6 DEF vars, Inv, TypeOK, Tasks
<1> QED BY <1>1, <1>2, <1>3, <1>4, <1>5, <1>6 DEF Next
THEOREM InvImplies == Inv => GatheredByIndex
  BY DEF Inv, GatheredByIndex, Tasks
THEOREM Safety == Spec => []GatheredByIndex
<1>1. Spec => []Inv
  BY InitInv, NextInv, PTL DEF Spec
<1> QED BY <1>1, InvImplies, PTL
=============================================================================
