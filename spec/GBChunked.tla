------------------------------ MODULE GBChunked ------------------------------
(***************************************************************************)
(* Reductions over CHUNKED group keys: the block pipeline of                *)
(* GroupBy._apply_gb_func_across_chunked_group_keys / count_ikey            *)
(* (C03 "whether keys were factorized whole or in chunks", C05 mask =       *)
(* filter on chunked keys, C13 representations).                            *)
(*                                                                           *)
(* Anchors (groupby_lib/groupby/core.py):                                    *)
(*   _factorize_group_key_in_chunks  per-chunk dictionaries (local codes),  *)
(*        result index = de-duplicated union, pointer tables                 *)
(*   _unify_group_key_chunks(keep_chunked=True)   rep = "global"             *)
(*   _find_first_chunk_in_slice, _resolve_mask_argument_into_chunks          *)
(*        action Resolve; the slice of the chunked code array itself is     *)
(*        taken by Arrow (ChunkedArray::Slice), modelled by ArrowSlice       *)
(*   parallel_map(group_<kernel>, per piece)       action ChunkReduce        *)
(*   reduce_array_pair(combined[pointer], result, counts) + np.where         *)
(*        (block_count > 0, ...)                   action MergePiece         *)
(*                                                                           *)
(* The mechanism is correct only if the pointer table the library picks     *)
(* for the i-th piece of the sliced code array (first_chunk_in + i) is the  *)
(* table of the chunk Arrow took that piece from: PointerAligned.           *)
(***************************************************************************)
EXTENDS GBValues, GBSel, TLC

CONSTANTS LabelIds, Vals, MaxRows, MaxChunks, KernelSet, MaskKinds, Reps, SortChoices,
          DistinctVals,        \* TRUE: vals[i] = i (layout-focused configurations)
          AnyOrder,            \* chunk tasks complete in any order
          NegStartUnclamped,   \* deviation (pinned code): slice start < -len is not clamped before the chunk search
          FirstChunkGE,        \* deviation: cum_length >= start
          PointerNoOffset,     \* deviation: piece i merged through pointer table i (first_chunk_in ignored)
          MergeNoCount,        \* deviation: merge without the accumulated count
          PosAsSet,            \* deviation (what the code does): positional mask on chunked keys -> boolean set
          MaxCalls,            \* calls on one grouping object (1: a single call; 2: representation changes in between)
          UnifyWrapsNull,      \* deviation D6: unification maps the null code through p[-1] (the chunk's last pointer entry)
          NoNullSlot           \* deviation: the merged array has no trailing slot for the null code, so transform=True
                               \* gives a null-key row the LAST group's value (combined[-1])

VARIABLES kernel, keys, vals, klens, rep, mask,      \* the call (constant after Init)
          pc, ldict, lcodes, labels, ptr,            \* the grouping
          first, pieces,                             \* mask resolution
          partial, todo, combined, nmerged, oob,     \* reduction
          calls,                                     \* completed calls on this object
          tout                                       \* transform=True: the per-row broadcast of the merged result (<<>>: none yet)
hvars == <<kernel, keys, vals, klens, rep, mask, calls, tout>>
gvars == <<ldict, lcodes, labels, ptr>>
vars == <<hvars, gvars, pc, first, pieces, partial, todo, combined, nmerged, oob>>

N == Len(keys)
IndexOf(s, x) == IF \E j \in 1..Len(s) : s[j] = x THEN CHOOSE j \in 1..Len(s) : s[j] = x ELSE 0

RECURSIVE SumTo(_, _)
SumTo(s, j) == IF j = 0 THEN 0 ELSE s[j] + SumTo(s, j - 1)      \* s[1] + ... + s[j]
Off(c) == SumTo(klens, c - 1)                                     \* rows before chunk c

-----------------------------------------------------------------------------
(* ---- factorization of the chunks (details of the routes: GBFactorize) --- *)
RECURSIVE FirstApp(_, _, _, _)
FirstApp(lo, hi, i, d) == \* dictionary of keys[lo..hi] in first-appearance order
  IF i > hi THEN d
  ELSE FirstApp(lo, hi, i + 1, IF keys[i] = Null \/ IndexOf(d, keys[i]) > 0 THEN d ELSE Append(d, keys[i]))
ChunkDict(c) == FirstApp(Off(c) + 1, Off(c) + klens[c], Off(c) + 1, <<>>)
RECURSIVE DropDup(_, _, _)
DropDup(s, i, d) == IF i > Len(s) THEN d ELSE DropDup(s, i + 1, IF IndexOf(d, s[i]) > 0 THEN d ELSE Append(d, s[i]))
RECURSIVE Cat(_, _)
Cat(ss, j) == IF j > Len(ss) THEN <<>> ELSE ss[j] \o Cat(ss, j + 1)

UnionOfDicts == DropDup(Cat([c \in 1..Len(klens) |-> ChunkDict(c)], 1), 1, <<>>)      \* first-appearance order (sort=False)
SortedLabels == SortSeq(UnionOfDicts, LAMBDA a, b : a < b)                            \* sort=True
(* lb: the result index (any ordering of the de-duplicated union of the chunk dictionaries) *)
FactorizeWith(lb) ==
  /\ pc = "start"
  /\ LET ds == [c \in 1..Len(klens) |-> ChunkDict(c)]
     IN  /\ labels' = lb
         /\ IF rep = "pointers"
            THEN /\ ldict' = ds
                 /\ ptr' = [c \in 1..Len(klens) |-> [g \in 1..Len(ds[c]) |-> IndexOf(lb, ds[c][g])]]
                 /\ lcodes' = [c \in 1..Len(klens) |-> [r \in 1..klens[c] |->
                                  IF keys[Off(c) + r] = Null THEN -1 ELSE IndexOf(ds[c], keys[Off(c) + r]) - 1]]
            ELSE \* unified: global codes, no pointer tables
                 /\ ldict' = [c \in 1..Len(klens) |-> lb]
                 /\ ptr' = [c \in 1..Len(klens) |-> [g \in 1..Len(lb) |-> g]]
                 /\ lcodes' = [c \in 1..Len(klens) |-> [r \in 1..klens[c] |->
                                  IF keys[Off(c) + r] = Null THEN -1 ELSE IndexOf(lb, keys[Off(c) + r]) - 1]]
  /\ pc' = "resolve"
  /\ UNCHANGED <<hvars, first, pieces, partial, todo, combined, nmerged, oob>>
Factorize == \E srt \in SortChoices : FactorizeWith(IF srt THEN SortedLabels ELSE UnionOfDicts)

-----------------------------------------------------------------------------
(* ---- Arrow: ChunkedArray::Slice(offset, length) ------------------------- *)
(* returns the pieces <<[src, lo, hi]>> (global 1-based rows lo..hi taken from chunk src); leading chunks are     *)
(* skipped while offset >= their length (so EMPTY leading chunks are always skipped), trailing ones once length   *)
(* is used up; a zero-length slice keeps one empty piece                                                          *)
RECURSIVE SkipChunks(_, _)
SkipChunks(c, off) == IF c <= Len(klens) /\ off >= klens[c] THEN SkipChunks(c + 1, off - klens[c]) ELSE <<c, off>>
RECURSIVE TakeChunks(_, _, _)
TakeChunks(c, off, len) ==
  IF c > Len(klens) \/ len <= 0 THEN <<>>
  ELSE LET avail == klens[c] - off
           take == IF len < avail THEN len ELSE avail
       IN  <<[src |-> c, lo |-> Off(c) + off + 1, hi |-> Off(c) + off + take]>> \o TakeChunks(c + 1, 0, len - avail)
ArrowSlice(a, len) ==
  LET sk == SkipChunks(1, a)
      c0 == sk[1]
  IN  IF a = N \/ len = 0
      THEN LET c == IF c0 > Len(klens) THEN Len(klens) ELSE c0 IN <<[src |-> c, lo |-> 1, hi |-> 0]>>
      ELSE TakeChunks(c0, sk[2], len)

(* ---- _find_first_chunk_in_slice ----------------------------------------- *)
RECURSIVE FindFirst(_, _, _)
FindFirst(c, cum, start) == \* first chunk whose cumulative length exceeds start; the last chunk if none does
  IF c > Len(klens) THEN Len(klens)
  ELSE LET cum2 == cum + klens[c]
       IN  IF (IF FirstChunkGE THEN cum2 >= start ELSE cum2 > start) THEN c ELSE FindFirst(c + 1, cum2, start)
FirstChunkIn(start) ==
  LET s0 == IF start = None THEN 0 ELSE IF start < 0 THEN N + start ELSE start
      s  == IF s0 < 0 /\ ~NegStartUnclamped THEN 0 ELSE s0
  IN  FindFirst(1, 0, s)

WholePieces == [c \in 1..Len(klens) |-> [src |-> c, lo |-> Off(c) + 1, hi |-> Off(c) + klens[c]]]

IsPos == mask.k = "pos" /\ ~PosAsSet
(* _unify_chunks_for_positional_mask: a chunked code array cannot be indexed by positions, so it is unified first *)
NeedsUnifyForPositions == IsPos /\ (Len(klens) > 1 \/ rep = "pointers")
Resolve ==
  /\ pc = "resolve" /\ ~NeedsUnifyForPositions
  /\ IF mask.k = "slice"
     THEN LET a == ClampLo(IF mask.s[1] = None THEN 0 ELSE mask.s[1], N)
              b == ClampLo(IF mask.s[2] = None THEN N ELSE mask.s[2], N)
          IN  /\ pieces' = ArrowSlice(a, IF b > a THEN b - a ELSE 0)
              /\ first' = FirstChunkIn(mask.s[1])
     ELSE /\ pieces' = WholePieces
          /\ first' = 1
  /\ partial' = [i \in 1..Len(pieces') |-> <<>>]
  /\ todo' = 1..Len(pieces')
  /\ combined' = [g \in 1..Len(labels) |-> EmptyP(kernel)]
  /\ nmerged' = 0
  /\ pc' = "reduce"
  /\ UNCHANGED <<hvars, gvars, oob>>

-----------------------------------------------------------------------------
(* ---- one task per piece: group_<kernel>(values piece, codes piece, mask piece, ngroups = len(pointer) + 1) ---- *)
RowSelected(r) == \* is global row r (1-based) selected by a non-slice mask (a slice already cut the pieces)
  CASE mask.k = "bool" -> mask.b[r] = 1
    [] mask.k = "pos"  -> \E j \in 1..Len(mask.p) : PosIdx0(N, mask.p)[j] = r - 1     \* PosAsSet: membership only
    [] OTHER -> TRUE
PtrIdx(i) == IF PointerNoOffset THEN i ELSE first + i - 1        \* the pointer table the library uses for piece i
PtrOf(i) == IF PtrIdx(i) <= Len(ptr) THEN ptr[PtrIdx(i)] ELSE <<>>
CodeAt(p, r) == lcodes[p.src][r - Off(p.src)]
RECURSIVE PieceFold(_, _, _, _)
PieceFold(p, g, r, acc) == \* fold the selected rows r..p.hi of piece p whose local code is g - 1
  IF r > p.hi THEN acc
  ELSE PieceFold(p, g, r + 1, IF RowSelected(r) /\ CodeAt(p, r) = g - 1 THEN Step(kernel, acc, vals[r]) ELSE acc)
RECURSIVE PieceFoldLabel(_, _, _, _)
PieceFoldLabel(p, lab, r, acc) == \* the same fold, by label: what the piece's partial for `lab` must be
  IF r > p.hi THEN acc
  ELSE PieceFoldLabel(p, lab, r + 1, IF RowSelected(r) /\ keys[r] = lab THEN Step(kernel, acc, vals[r]) ELSE acc)
(* integer positions (repeats, any order): the chunks were unified first (UnifyForPositions), the single piece is folded   *)
(* over the positions in the order given -- array indexing semantics                                                    *)
RECURSIVE PosFold(_, _, _)
PosFold(g, j, acc) == IF j > Len(Sel0(N, mask)) THEN acc
  ELSE LET r == Sel0(N, mask)[j] + 1 IN PosFold(g, j + 1, IF lcodes[1][r] = g - 1 THEN Step(kernel, acc, vals[r]) ELSE acc)
RECURSIVE PosFoldLabel(_, _, _)
PosFoldLabel(lab, j, acc) == IF j > Len(Sel0(N, mask)) THEN acc
  ELSE LET r == Sel0(N, mask)[j] + 1 IN PosFoldLabel(lab, j + 1, IF keys[r] = lab THEN Step(kernel, acc, vals[r]) ELSE acc)
PieceOOB(i) == PtrIdx(i) > Len(ptr) \/ \E r \in pieces[i].lo..pieces[i].hi : RowSelected(r) /\ CodeAt(pieces[i], r) >= Len(PtrOf(i))

ChunkReduce(i) ==
  /\ pc = "reduce" /\ i \in todo
  /\ AnyOrder \/ \A j \in todo : i <= j
  /\ partial' = [partial EXCEPT ![i] = [g \in 1..Len(PtrOf(i)) |->
                     IF IsPos THEN PosFold(g, 1, EmptyP(kernel)) ELSE PieceFold(pieces[i], g, pieces[i].lo, EmptyP(kernel))]]
  /\ oob' = (oob \/ PieceOOB(i))
  /\ todo' = todo \ {i}
  /\ pc' = IF todo' = {} THEN "merge" ELSE "reduce"
  /\ UNCHANGED <<hvars, gvars, first, pieces, combined, nmerged>>

(* ---- merge of the piece results, in piece order, through the pointer tables ---- *)
MergeOne(p, q) == IF q.c = 0 THEN p                                \* np.where(block_count > 0, merged, combined)
                  ELSE IF MergeNoCount THEN MergeDev(kernel, p, q, TRUE) ELSE Merge(kernel, p, q)
MergePiece ==
  /\ pc = "merge" /\ nmerged < Len(pieces)
  /\ LET i == nmerged + 1
         pt == PtrOf(i)
     IN  combined' = [g \in 1..Len(labels) |->
                        IF \E l \in 1..Len(pt) : pt[l] = g
                        THEN MergeOne(combined[g], partial[i][CHOOSE l \in 1..Len(pt) : pt[l] = g])
                        ELSE combined[g]]
  /\ nmerged' = nmerged + 1
  /\ pc' = IF nmerged' = Len(pieces) THEN "done" ELSE "merge"
  /\ UNCHANGED <<hvars, gvars, first, pieces, partial, todo, oob>>


-----------------------------------------------------------------------------
(* ---- inputs (model checking) ------------------------------------------- *)
RECURSIVE SeqsOver(_, _)
SeqsOver(S, n) == IF n = 0 THEN {<<>>} ELSE {Append(s, x) : s \in SeqsOver(S, n - 1), x \in S}
RECURSIVE Layouts(_, _)
Layouts(n, k) == \* weak compositions of n into exactly k parts (empty chunks allowed)
  IF k = 1 THEN {<<n>>} ELSE UNION {{<<a>> \o l : l \in Layouts(n - a, k - 1)} : a \in 0..n}
Bounds(n) == {None} \cup (-(n + 2)..(n + 2))
MasksOf(n) ==
  (IF "none" \in MaskKinds THEN {[k |-> "none"]} ELSE {})
  \cup (IF "bool" \in MaskKinds THEN {[k |-> "bool", b |-> b] : b \in SeqsOver({0, 1}, n)} ELSE {})
  \cup (IF "slice" \in MaskKinds THEN {[k |-> "slice", s |-> <<a, b, None>>] : a \in Bounds(n), b \in Bounds(n)} ELSE {})
  \cup (IF "pos" \in MaskKinds THEN {[k |-> "pos", p |-> p] : p \in UNION {SeqsOver(-n..(n - 1), m) : m \in 0..2}} ELSE {})

-----------------------------------------------------------------------------
(* ---- the object is reused: _unify_group_key_chunks between calls (C13 with data) ------------------------------- *)
(* keep_chunked = TRUE  (groups / apply / median): chunk-local codes are mapped through the pointer tables to global *)
(*                      codes, the chunks stay, the pointer tables are dropped (rep "global")                         *)
(* keep_chunked = FALSE (transform, cumulative, rolling, head/tail/nth, ema): one contiguous array of global codes   *)
GlobalCode(c, r) == LET k == lcodes[c][r] IN
  IF k >= 0 THEN ptr[c][k + 1] - 1
  ELSE IF UnifyWrapsNull /\ rep = "pointers" /\ Len(ptr[c]) > 0 THEN ptr[c][Len(ptr[c])] - 1 ELSE -1
RECURSIVE CatCodes(_)
CatCodes(c) == IF c > Len(klens) THEN <<>> ELSE [r \in 1..klens[c] |-> GlobalCode(c, r)] \o CatCodes(c + 1)
Unify(keep) ==
  /\ pc = "done" /\ calls < MaxCalls
  /\ IF keep
     THEN /\ lcodes' = [c \in 1..Len(klens) |-> [r \in 1..klens[c] |-> GlobalCode(c, r)]]
          /\ ptr' = [c \in 1..Len(klens) |-> [g \in 1..Len(labels) |-> g]]
          /\ ldict' = [c \in 1..Len(klens) |-> labels]
          /\ UNCHANGED klens
     ELSE /\ lcodes' = <<CatCodes(1)>>
          /\ ptr' = <<[g \in 1..Len(labels) |-> g]>>
          /\ ldict' = <<labels>>
          /\ klens' = <<N>>
  /\ rep' = "global"
  /\ partial' = [i \in 1..Len(pieces) |-> <<>>]          \* (the partial arrays of the finished call are gone)
  /\ UNCHANGED <<kernel, keys, vals, mask, calls, tout, labels, pc, first, pieces, todo, combined, nmerged, oob>>
UnifyForPositions ==
  /\ pc = "resolve" /\ NeedsUnifyForPositions
  /\ lcodes' = <<CatCodes(1)>> /\ ptr' = <<[g \in 1..Len(labels) |-> g]>> /\ ldict' = <<labels>> /\ klens' = <<N>> /\ rep' = "global"
  /\ UNCHANGED <<kernel, keys, vals, mask, calls, tout, labels, pc, first, pieces, partial, todo, combined, nmerged, oob>>
(* transform=True: the chunks are unified to one array of global codes and the merged per-group results are read back  *)
(* row by row; the merged array carries one trailing slot that the null code (-1) selects: the neutral result         *)
Neutral == ResultOf(kernel, EmptyP(kernel))
Broadcast ==
  /\ pc = "done" /\ tout = <<>> /\ N > 0
  /\ LET codes == CatCodes(1) IN
     tout' = [r \in 1..N |->
                IF codes[r] >= 0 THEN ResultOf(kernel, combined[codes[r] + 1])
                ELSE IF NoNullSlot /\ Len(labels) > 0 THEN ResultOf(kernel, combined[Len(labels)]) ELSE Neutral]
  /\ UNCHANGED <<kernel, keys, vals, klens, rep, mask, calls, gvars, pc, first, pieces, partial, todo, combined, nmerged, oob>>

(* the next call on the same object: another reduction, another mask *)
NextCall ==
  /\ pc = "done" /\ calls < MaxCalls
  /\ kernel' \in KernelSet /\ mask' \in MasksOf(N)
  /\ calls' = calls + 1 /\ tout' = <<>>
  /\ pc' = "resolve"
  /\ UNCHANGED <<keys, vals, klens, rep, gvars, first, pieces, partial, todo, combined, nmerged, oob>>

Next == Factorize \/ Resolve \/ (\E i \in 1..MaxChunks : ChunkReduce(i)) \/ MergePiece \/ (\E keep \in BOOLEAN : Unify(keep)) \/ UnifyForPositions \/ Broadcast \/ NextCall

Init0 ==
  /\ kernel \in KernelSet
  /\ \E n \in 1..MaxRows :
       /\ keys \in SeqsOver(LabelIds \cup {Null}, n)
       /\ vals \in (IF DistinctVals THEN {[i \in 1..n |-> i]} ELSE SeqsOver(Vals \cup {Null}, n))
       /\ klens \in UNION {Layouts(n, k) : k \in 1..MaxChunks}
       /\ mask \in MasksOf(n)
  /\ rep \in Reps
  /\ pc = "start"
  /\ ldict = <<>> /\ lcodes = <<>> /\ labels = <<>> /\ ptr = <<>>
  /\ first = 0 /\ pieces = <<>> /\ partial = <<>> /\ todo = {} /\ combined = <<>> /\ nmerged = 0 /\ oob = FALSE
  /\ calls = 1 /\ tout = <<>>
Spec == Init0 /\ [][Next]_vars

-----------------------------------------------------------------------------
(* ---- what the properties state ------------------------------------------ *)
SelRows == Sel0(N, mask)                                  \* 0-based selected positions, in selection order
GroupVals(lab) == LET pick == SelectSeq(SelRows, LAMBDA r0 : keys[r0 + 1] = lab)
                  IN  [j \in 1..Len(pick) |-> vals[pick[j] + 1]]
(* C01 / C03 / C05: the merged result is the per-group definition over the selected rows *)
MergedIsDef == pc = "done" =>
  \A g \in 1..Len(labels) : /\ ResultOf(kernel, combined[g]) = Def(kernel, GroupVals(labels[g]))
                            /\ (kernel # "last" => combined[g].c = (IF kernel = "size" THEN Len(GroupVals(labels[g]))
                                                                     ELSE DefCount(GroupVals(labels[g]))))
(* the pointer table used for a piece is the one of the chunk the piece was cut from *)
PointerAligned == (rep = "pointers" /\ pc \in {"reduce", "merge", "done"}) =>
  \A i \in 1..Len(pieces) : pieces[i].hi >= pieces[i].lo => PtrIdx(i) = pieces[i].src
NoOutOfBounds == ~oob
(* every piece partial is the fold of the piece's selected rows carrying that label *)
PartialIsPieceDef == \A i \in 1..Len(pieces) : (i \notin todo /\ pc \in {"reduce", "merge", "done"} /\ partial[i] # <<>>) =>
  \A g \in 1..Len(partial[i]) :
     partial[i][g] = (IF IsPos THEN PosFoldLabel(ldict[pieces[i].src][g], 1, EmptyP(kernel))
                      ELSE PieceFoldLabel(pieces[i], ldict[pieces[i].src][g], pieces[i].lo, EmptyP(kernel)))
(* the pieces are exactly the selected rows, in order (Arrow's slice = the slice) *)
PiecesAreSlice == (pc \in {"reduce", "merge", "done"} /\ mask.k = "slice") =>
  Cat([i \in 1..Len(pieces) |-> [r \in 1..(pieces[i].hi - pieces[i].lo + 1) |-> pieces[i].lo + r - 2]], 1) = SelRows
(* C13: whatever the representation, the rows' logical codes are the same: code of row r names the label keys[r] *)
LogicalCodesIntact == pc # "start" =>
  \A c \in 1..Len(klens) : \A r \in 1..klens[c] :
     LET k == lcodes[c][r] IN
     IF keys[Off(c) + r] = Null THEN k = -1 ELSE (k >= 0 /\ k < Len(ptr[c]) /\ labels[ptr[c][k + 1]] = keys[Off(c) + r])
(* C07: with transform=True every row carries its group's result; null-key rows (and rows of groups without a selected *)
(* row) carry the neutral result                                                                                        *)
TransformIsDef == tout # <<>> =>
  \A r \in 1..N : tout[r] = (IF keys[r] = Null THEN Neutral ELSE Def(kernel, GroupVals(keys[r])))
LabelsAreKeys == pc # "start" => {labels[g] : g \in 1..Len(labels)} = {keys[i] : i \in 1..N} \ {Null}
=============================================================================
