#!/venv/bin/python
"""triage aid: ./triage.py C04 [field ...]  -- group the rejected traces of the last run."""
import collections
import json
import sys
pid = sys.argv[1]
fields = sys.argv[2:] or ["op", "emb", "out", "exc"]
rej = json.load(open(f"/verif/work/{pid}_rejected.json"))
def get(t, f):
    v = t
    for part in f.split("."):
        v = v.get(part) if isinstance(v, dict) else (v[int(part)] if isinstance(v, list) and part.isdigit() and int(part) < len(v) else None)
    return json.dumps(v)
c = collections.Counter(tuple(get(t, f) for f in fields) for t in rej)
for k, n in c.most_common(60):
    print(n, dict(zip(fields, k)))
print(len(rej), "rejected")
