#!/venv/bin/python
"""Regenerate DESIGN.md section 11.6 (seeded defects: which check catches which change) from seeded/*/meta.json."""
import json, os, re
S = "/verif/seeded"
rows = []
for sid in sorted(x for x in os.listdir(S) if os.path.isdir(f"{S}/{x}")):
    p = f"{S}/{sid}/meta.json"
    if not os.path.exists(p):
        continue
    m = json.load(open(p))
    det = ", ".join(m.get("detected_by") or []) or "**not detected**"
    note = m.get("missed_at_first", "")
    rows.append(f"| {sid} | {m.get('needs_to_manifest', '').replace('|', '/')} | {det} | {('missed at first: ' + note) if note else ''} |")
n = len(rows)
nd = sum(1 for r in rows if "**not detected**" not in r)
txt = (f"### 11.6 Seeded defects ({n} kept, {nd} detected by the quick tier)\n\n"
       "| seed | change / what it needs to manifest | detected by (quick tier) | strengthening |\n|---|---|---|---|\n" + "\n".join(rows) + "\n")
d = open("/verif/DESIGN.md").read()
if "### 11.6 Seeded defects" in d:
    a = d.index("### 11.6 Seeded defects")
    b = d.index("## 12. Appendix A")
    d = d[:a] + txt + "\n" + d[b:]
else:
    b = d.index("## 12. Appendix A")
    d = d[:b] + txt + "\n" + d[b:]
open("/verif/DESIGN.md", "w").write(d)
print(n, "seeds,", nd, "detected")
