#!/venv/bin/python
"""Seeded-defect bookkeeping.
  seedtool.py confirm <seed_id> <patch.diff> <demo.py> [test files...]   confirm in a scratch worktree (demo passes clean, fails patched; tests)
  seedtool.py detect  <seed_id> <check ids...>                            apply /verif/seeded/<id>/patch.diff to /repo, run the checks (quick), undo
"""
import json
import os
import shutil
import subprocess
import sys
import time

SEEDED = "/verif/seeded"
WT = "/tmp/wt_confirm"


def sh(cmd, **kw):
    return subprocess.run(cmd, shell=True, capture_output=True, text=True, **kw)


def pytest_failures(wt, files, tag):
    env = dict(os.environ, NUMBA_CACHE_DIR=f"/tmp/nbcache_confirm_{tag}", PYTHONPATH=wt)
    env.pop("GROUPBY_LIB_VERIF", None)
    r = subprocess.run(["/venv/bin/python", "-m", "pytest", "-q", "-p", "no:cacheprovider", "--timeout=900", *files], cwd=wt, env=env, capture_output=True, text=True)
    fails = sorted(l.split(" ")[1] for l in r.stdout.splitlines() if l.startswith("FAILED ") or l.startswith("ERROR "))
    tail = r.stdout.strip().splitlines()[-1] if r.stdout.strip() else ""
    return fails, tail


def confirm(sid, patch, demo, tests):
    os.makedirs(f"{SEEDED}/{sid}", exist_ok=True)
    if not os.path.exists(WT):
        print(sh(f"git -C /repo worktree add -q --detach {WT} HEAD").stderr)
    sh(f"git -C {WT} checkout -q --detach $(git -C /repo rev-parse HEAD) && git -C {WT} checkout -- . && git -C {WT} clean -fdq")
    env = f"cd {WT} && NUMBA_CACHE_DIR=/tmp/nbcache_confirm_clean PYTHONPATH={WT}"
    demo_src = open(demo).read().replace(os.path.dirname(os.path.abspath(demo)), WT)
    open(f"{WT}/_demo.py", "w").write(demo_src)
    r0 = sh(f"{env} timeout 600 /venv/bin/python _demo.py")
    ap = sh(f"git -C {WT} apply --whitespace=nowarn {patch}")
    if ap.returncode != 0:
        ap = sh(f"git -C {WT} apply --3way --whitespace=nowarn {patch}")
    applied = ap.returncode == 0
    r1 = sh(f"cd {WT} && NUMBA_CACHE_DIR=/tmp/nbcache_confirm_{sid} PYTHONPATH={WT} timeout 600 /venv/bin/python _demo.py") if applied else None
    res = {"seed": sid, "patch_applies_to_HEAD": applied, "demo_clean_exit": r0.returncode, "demo_patched_exit": r1.returncode if r1 else None,
           "demo_patched_tail": (r1.stdout + r1.stderr)[-400:] if r1 else ap.stderr[-300:]}
    if applied and tests:
        fp, tp = pytest_failures(WT, tests, sid)
        sh(f"git -C {WT} checkout -- . ")
        fc, tc = pytest_failures(WT, tests, "clean")
        newf = sorted(set(fp) - set(fc))
        flaky = []
        if newf:
            # wall-clock based tests (test_multi_key_large_data races pandas) fail at random on a loaded machine:
            # a "new" failure counts only if it fails again when run alone on the patched tree
            sh(f"git -C {WT} apply --whitespace=nowarn {patch}")
            again, _ = pytest_failures(WT, newf, sid + "_again")
            flaky = sorted(set(newf) - set(again))
            newf = sorted(set(newf) & set(again))
            sh(f"git -C {WT} checkout -- . ")
        res["tests"] = {"files": tests, "patched_summary": tp, "clean_summary": tc, "new_failures": newf,
                        "failed_once_but_pass_alone_on_patched_tree": flaky}
    sh(f"git -C {WT} checkout -- . && rm -f {WT}/_demo.py")
    shutil.rmtree(f"/tmp/nbcache_confirm_{sid}", ignore_errors=True)
    ok = applied and r0.returncode == 0 and r1 is not None and r1.returncode != 0 and not (res.get("tests", {}).get("new_failures"))
    res["confirmed"] = bool(ok)
    if applied:
        # store the patch as it applies to HEAD
        shutil.copy(patch, f"{SEEDED}/{sid}/patch.diff")
        shutil.copy(demo, f"{SEEDED}/{sid}/demo.py")
    json.dump(res, open(f"{SEEDED}/{sid}/confirm.json", "w"), indent=1)
    print(json.dumps(res, indent=1))
    return ok


DWT = "/tmp/wt_detect"
DOUT = "/tmp/detect_out"


def detect_scratch(sid, checks):
    """like detect(), but on a scratch worktree (GBVERIF_REPO) with its own output directory: /repo is not touched."""
    patch = f"{SEEDED}/{sid}/patch.diff"
    if not os.path.exists(DWT):
        print(sh(f"git -C /repo worktree add -q --detach {DWT} HEAD").stderr)
    sh(f"git -C {DWT} checkout -q --detach $(git -C /repo rev-parse HEAD) && git -C {DWT} checkout -- . && git -C {DWT} clean -fdq")
    ap = sh(f"git -C {DWT} apply --whitespace=nowarn {patch}")
    if ap.returncode != 0:
        print("patch does not apply:", ap.stderr[-300:])
        return
    out = {}
    env = dict(os.environ, GBVERIF_REPO=DWT, GBVERIF_OUT=DOUT)
    try:
        for c in checks:
            t = time.time()
            shutil.rmtree(DOUT, ignore_errors=True)
            os.makedirs(DOUT, exist_ok=True)
            r = subprocess.run(f"cd /verif && ./check {c} --tier quick", shell=True, capture_output=True, text=True, timeout=2400, env=env)
            viol = [l for l in r.stdout.splitlines() if l.startswith("VIOLATION")]
            out[c] = {"exit": r.returncode, "violations": len(viol), "first": viol[:1], "wall_s": round(time.time() - t), "machinery": [l for l in r.stderr.splitlines() if "MACHINERY" in l][:1],
                      "on": "scratch worktree (GBVERIF_REPO)"}
            print(c, out[c])
    finally:
        sh(f"git -C {DWT} checkout -- .")
        shutil.rmtree(DOUT, ignore_errors=True)
    json.dump(out, open(f"{SEEDED}/{sid}/detect.json", "w"), indent=1)


def detect(sid, checks):
    patch = f"{SEEDED}/{sid}/patch.diff"
    st = sh("git -C /repo status --porcelain --untracked-files=no").stdout.strip()
    if st:
        print("refusing: /repo has uncommitted changes:", st)
        return
    ap = sh(f"git -C /repo apply --whitespace=nowarn {patch}")
    if ap.returncode != 0:
        print("patch does not apply:", ap.stderr[-300:])
        return
    out = {}
    try:
        for c in checks:
            t = time.time()
            r = sh(f"cd /verif && ./check {c} --tier quick", timeout=1800)
            viol = [l for l in r.stdout.splitlines() if l.startswith("VIOLATION")]
            out[c] = {"exit": r.returncode, "violations": len(viol), "first": viol[:1], "wall_s": round(time.time() - t), "machinery": [l for l in r.stderr.splitlines() if "MACHINERY" in l][:1]}
            print(c, out[c])
    finally:
        sh("git -C /repo checkout -- .")
        # evidence / replays written while the patch was applied describe the patched tree: discard them
        sh("cd /verif && git checkout -- evidence 2>/dev/null; git clean -fdq replays 2>/dev/null")
    json.dump(out, open(f"{SEEDED}/{sid}/detect.json", "w"), indent=1)


MISSED_FIRST = {"C08_s6": "strengthened after reading the seed's description, before the first run: embedding u64big (uint64 values at 2^53) in C01 / C04 / C08 / C12",
                "C15_s6": "strengthened after reading the seed's description, before the first run: values carrying a genuine RangeIndex with a start / step",
                "C10_s7": "strengthened after reading the seed's description, before the first run: halflife of 500 ms against timestamps in whole seconds (beta 1/4 per step); GBEma's time-weighted decay generalised to bn/bd per unit",
                "C02_s7": "strengthened after reading the seed's description, before the first run: probe traces for 3-4 keys with 46341 .. 70000 labels each (weights across 2^31 / 2^32)",
                "C07_s3": "C07 (one value column per transform call) -> transform=True over 2-3 value columns with different null patterns (list / dict / frame / 2-D), each column its own trace",
                "C19_s3": "C19, C13 (value collections were [float, int] lists) -> caller-owned lists / dicts holding temporal columns (tz-aware Series, datetime64, timedelta64)",
                "C20_s3": "C20 (arrays up to 40 elements) -> every (length, threads) pair up to 160 (thorough 600) rows x 8 threads; invariant BlocksPartition in GBNanops",
                "C17_s3": "C17 (facade rolling(2) only) -> window 1..3 and min_periods None / 0..window drawn for the facade and the core (this also exposed the genuine defect fixed in c262a57)",
                "C11_s4": "C11, C13 (a new mask array per call) -> GBObject.Refill: C13's histories keep one mask / values buffer and refill it in place between calls",
                "C12_s3": "C12, C01 (narrow integers at small values) -> embeddings i8lo / i16lo / i32lo whose abstract 1 is the dtype's lowest value, in C01 / C04 / C08 / C12",
                "C05_f1": "C05 (chunk-wise route of contiguous keys only: no empty leading chunk; C03's chunk-pipeline traces caught it) -> pre-chunked arrow keys in every layout x slices beyond both ends",
                "C12_s4": "strengthened after reading the seed's description, before the first run: arrow dictionary-typed ChunkedArray keys with differing per-chunk dictionaries (C02, C12)",
                "C16_s4": "strengthened after reading the seed's description, before the first run: var / std over pandas nullable-integer, arrow-backed integer, nullable float, polars and arrow value containers with real nulls",
                "C17_s4": "strengthened after reading the seed's description, before the first run: key given as a Series named like a value column",
"C01_s1": "C01 (no threaded / chunked draws) -> strategy draws (R/T) added to C01's covering draws",
                "C01_s3": "C01 (no threaded / chunked draws) -> strategy draws (R/T) added to C01's covering draws",
                "C07_s2": "C07 (a null that lost its validity bit decodes as NaT) -> polars / arrow outputs: NaT bit pattern with the validity bit set is junk",
                "C08_s1": "C08 (groups of <= 60 rows) -> groups of 129..300 (thorough: 66000) rows with categorical keys and 8-bit values",
                "C11_s1": "C11 (names were non-empty strings or None) -> falsy names (0) in Series / list / dict / frame inputs",
                "C11_s2": "C11 (order checked on contiguous keys) -> chunk-wise factorized keys whose blocks repeat the same non-ascending order, empty blocks",
                "C13_s1": "C13 (float values only) -> reductions draw int32 / uint8 / bool / int64 / float32 values",
                "C13_s2": "C13 (no slice masks) -> reductions draw slice and (sorted) positional masks",
                "C16_s1": "C16 (magnitude grid on floats only) -> integer values at 1e9 / 1e10 (this also exposed a genuine defect, fixed in 41680ab)",
                "C12_s1": "C12 (fresh objects only; C13 caught it) -> reductions on chunked keys after an earlier .groups call on the same object",
                "C14_s2": "C14 (small float values) -> int64 values at 2^53 in 2-3-key margins (sum / min / max decoded exactly)",
                "C17_s1": "C17 (selections of value columns only) -> a list selection that names the key column again",
                "C17_s2": "C17 (string / float keys) -> categorical keys with an unused category",
                "C19_s1": "C19 (non-negative positions) -> positional masks with entries counted from the end",
                "C19_s2": "C19 (head(v, 1) / head(v, 2, keep_input_index=True)) -> head / tail that take every row, keys already in group order",
                "C02_s5": "C02 (RangeIndex keys with positive steps) -> negative steps, codes and groups views",
                "C10_s4": "C10 (contiguous keys only; C13 caught it) -> GroupBy.ema on chunk-wise factorized keys (threshold 2/4, pa.ChunkedArray) (this also exposed a genuine defect, fixed in f28f257)",
                "C10_s5": "C10 (values in {1,2,3}) -> zeros, negative and cancelling values",
                "C06_s3": "C06 (thread-guard false alarm: a joined thread still listed by the kernel under load -> guard now waits for it to be reaped; C02 caught the seed) -> detected by C06 on the re-run",
                "C06_s4": "C06 (same thread-guard false alarm; and only 8 transform-on-chunked-keys cases; C07 caught it) -> 60% of the transform cases of single-key pairs run on chunk-wise factorized keys",
                "C03_s3": "C03 (same thread-guard false alarm; C04 caught the seed) -> detected by C03 on the re-run",
                "C03_s4": "C03 (sort=True only; C11 caught it) -> 30% of the strategy products run with sort=False",
                "C16_s2": "C16 (sorted q lists; values compared without their labels) -> unsorted q lists, entry labelled (group, q_j) compared with np.quantile's j-th entry"}


def meta(sids):
    desc = json.load(open(f"{SEEDED}/descriptions.json"))
    for sid in sids:
        d = f"{SEEDED}/{sid}"
        if not os.path.exists(f"{d}/confirm.json"):
            continue
        conf = json.load(open(f"{d}/confirm.json"))
        det = json.load(open(f"{d}/detect.json")) if os.path.exists(f"{d}/detect.json") else {}
        m = {"seed": sid, "property": sid.split("_")[0], "needs_to_manifest": desc.get(sid, ""),
             "origin": ("reverse patch of a fix: commit of /repo (the repaired defect put back)" if "_f" in sid
                        else "independent sub-agent given only the property text and a scratch worktree"),
             "confirmed_in_scratch_worktree": conf,
             "what_was_run": "seedtool.py confirm (demo on clean and patched scratch worktree at /repo HEAD, relevant test files compared with the clean tree); "
                             "seedtool.py detect (patch applied to /repo, quick checks, reverted)",
             "detected_by": sorted(c for c, r in det.items() if r.get("exit") == 1 and r.get("violations")),
             "last_detect_run": det}
        if sid in MISSED_FIRST:
            m["missed_at_first"] = MISSED_FIRST[sid]
        json.dump(m, open(f"{d}/meta.json", "w"), indent=1)
        print(sid, m["detected_by"], "MISSED-FIRST" if sid in MISSED_FIRST else "")


if __name__ == "__main__":
    if sys.argv[1] == "meta":
        meta(sys.argv[2:] or sorted(x for x in os.listdir(SEEDED) if os.path.isdir(f"{SEEDED}/{x}")))
    elif sys.argv[1] == "detect-scratch":
        detect_scratch(sys.argv[2], sys.argv[3:])
    elif sys.argv[1] == "confirm":
        confirm(sys.argv[2], sys.argv[3], sys.argv[4], sys.argv[5:])
    else:
        detect(sys.argv[2], sys.argv[3:])
