#!/venv/bin/python
"""Seeded-defect bookkeeping.
  seedtool.py confirm <seed_id> <patch.diff> <demo.py> [test files...]   confirm in a scratch worktree (demo passes clean, fails patched; tests)
  seedtool.py detect  <seed_id> <check ids...>                            apply /verif/seeded/<id>/patch.diff to /repo, run the checks (quick), undo
"""
import json
import os
import shutil
import subprocess
import sys
import time

SEEDED = "/verif/seeded"
WT = "/tmp/wt_confirm"


def sh(cmd, **kw):
    return subprocess.run(cmd, shell=True, capture_output=True, text=True, **kw)


def pytest_failures(wt, files, tag):
    env = dict(os.environ, NUMBA_CACHE_DIR=f"/tmp/nbcache_confirm_{tag}", PYTHONPATH=wt)
    env.pop("GROUPBY_LIB_VERIF", None)
    r = subprocess.run(["/venv/bin/python", "-m", "pytest", "-q", "-p", "no:cacheprovider", "--timeout=900", *files], cwd=wt, env=env, capture_output=True, text=True)
    fails = sorted(l.split(" ")[1] for l in r.stdout.splitlines() if l.startswith("FAILED ") or l.startswith("ERROR "))
    tail = r.stdout.strip().splitlines()[-1] if r.stdout.strip() else ""
    return fails, tail


def confirm(sid, patch, demo, tests):
    os.makedirs(f"{SEEDED}/{sid}", exist_ok=True)
    if not os.path.exists(WT):
        print(sh(f"git -C /repo worktree add -q --detach {WT} HEAD").stderr)
    sh(f"git -C {WT} checkout -q --detach $(git -C /repo rev-parse HEAD) && git -C {WT} checkout -- . && git -C {WT} clean -fdq")
    env = f"cd {WT} && NUMBA_CACHE_DIR=/tmp/nbcache_confirm_clean PYTHONPATH={WT}"
    demo_src = open(demo).read().replace(os.path.dirname(os.path.abspath(demo)), WT)
    open(f"{WT}/_demo.py", "w").write(demo_src)
    r0 = sh(f"{env} timeout 600 /venv/bin/python _demo.py")
    ap = sh(f"git -C {WT} apply --whitespace=nowarn {patch}")
    if ap.returncode != 0:
        ap = sh(f"git -C {WT} apply --3way --whitespace=nowarn {patch}")
    applied = ap.returncode == 0
    r1 = sh(f"cd {WT} && NUMBA_CACHE_DIR=/tmp/nbcache_confirm_{sid} PYTHONPATH={WT} timeout 600 /venv/bin/python _demo.py") if applied else None
    res = {"seed": sid, "patch_applies_to_HEAD": applied, "demo_clean_exit": r0.returncode, "demo_patched_exit": r1.returncode if r1 else None,
           "demo_patched_tail": (r1.stdout + r1.stderr)[-400:] if r1 else ap.stderr[-300:]}
    if applied and tests:
        fp, tp = pytest_failures(WT, tests, sid)
        sh(f"git -C {WT} checkout -- . ")
        fc, tc = pytest_failures(WT, tests, "clean")
        res["tests"] = {"files": tests, "patched_summary": tp, "clean_summary": tc, "new_failures": sorted(set(fp) - set(fc))}
    sh(f"git -C {WT} checkout -- . && rm -f {WT}/_demo.py")
    shutil.rmtree(f"/tmp/nbcache_confirm_{sid}", ignore_errors=True)
    ok = applied and r0.returncode == 0 and r1 is not None and r1.returncode != 0 and not (res.get("tests", {}).get("new_failures"))
    res["confirmed"] = bool(ok)
    if applied:
        # store the patch as it applies to HEAD
        shutil.copy(patch, f"{SEEDED}/{sid}/patch.diff")
        shutil.copy(demo, f"{SEEDED}/{sid}/demo.py")
    json.dump(res, open(f"{SEEDED}/{sid}/confirm.json", "w"), indent=1)
    print(json.dumps(res, indent=1))
    return ok


def detect(sid, checks):
    patch = f"{SEEDED}/{sid}/patch.diff"
    st = sh("git -C /repo status --porcelain --untracked-files=no").stdout.strip()
    if st:
        print("refusing: /repo has uncommitted changes:", st)
        return
    ap = sh(f"git -C /repo apply --whitespace=nowarn {patch}")
    if ap.returncode != 0:
        print("patch does not apply:", ap.stderr[-300:])
        return
    out = {}
    try:
        for c in checks:
            t = time.time()
            r = sh(f"cd /verif && ./check {c} --tier quick", timeout=1800)
            viol = [l for l in r.stdout.splitlines() if l.startswith("VIOLATION")]
            out[c] = {"exit": r.returncode, "violations": len(viol), "first": viol[:1], "wall_s": round(time.time() - t), "machinery": [l for l in r.stderr.splitlines() if "MACHINERY" in l][:1]}
            print(c, out[c])
    finally:
        sh("git -C /repo checkout -- .")
        # evidence / replays written while the patch was applied describe the patched tree: discard them
        sh("cd /verif && git checkout -- evidence 2>/dev/null; git clean -fdq replays 2>/dev/null")
    json.dump(out, open(f"{SEEDED}/{sid}/detect.json", "w"), indent=1)


if __name__ == "__main__":
    if sys.argv[1] == "confirm":
        confirm(sys.argv[2], sys.argv[3], sys.argv[4], sys.argv[5:])
    else:
        detect(sys.argv[2], sys.argv[3:])
