#!/venv/bin/python
"""Regenerate MANIFEST.json from the table below (single source of truth for the interface)."""
import json, subprocess
CLAIMED = {
 "C04": dict(
   text="TLC explores the kernel state machine (GBReduce: one action per row, per block boundary/merge) exhaustively "
        "within small constants and checks block-wise == single-pass == per-group definition in every state; every "
        "recorded call of the real numba.group_* kernels (all inputs up to length 3/4, all kernels, dtype classes, mask "
        "kinds, thread counts, arrow chunk layouts) is replayed through the same actions by TLC and accepted only if the "
        "returned arrays equal the machine's state.  Supplement: TLAPS proves the scalar merge algebra behind the block law "
        "(Step(Merge(p,q),v) = Merge(p,Step(q,v)), identities, associativity for max/min/first/sum) over unbounded integers "
        "(spec/proofs/GBMergeLemmas.tla, 18 obligations, re-proved by every run).",
   note="trusted: value embeddings/projections (gbverif/abstract.py), TLC, tlapm back ends; bounds: rows<=7, 2-3 groups on the spec, rows<=6 on the code; the induction over block count on top of the TLAPS lemmas is a paper argument",
   technique="TLA+ spec GBReduce model-checked with TLC + batch trace validation (Trace_GBReduce) of real kernel calls + TLAPS lemmas for the merge algebra",
   ref="DESIGN.md section 6/C04"),
 "C01": dict(
   text="TLC checks the GroupBy reduction pipeline model (GBCore: factorization row by row, kernel step per selected row, "
        "observed filter, ordering) against the per-group definition computed from the input history in every state; every "
        "recorded real GroupBy.<reduction> call (all inputs up to length 3/4 x 8 reductions, key/value dtype covering draws, "
        "mask kinds) is replayed through the same actions and accepted only if labels and values equal the machine's.",
   note="trusted: pandas result projection and encoders (gbverif/drivers/api.py, abstract.py), TLC; bounds: rows<=5 on the spec, rows<=40 on the code",
   technique="TLA+ spec GBCore model-checked with TLC + batch trace validation (Trace_GBCore) of real GroupBy calls",
   ref="DESIGN.md section 6/C01"),
 "C02": dict(
   text="TLC explores every factorization route as a state machine (GBFactorize: plain dictionary, mixed-radix multi-key, "
        "monotone prefix scan, chunk tasks finishing in any order, pointer tables, unification) over all key arrays within the "
        "bounds and checks the faithful-partition relation P1-P4; every recorded real factorization (factorize_1d/2d, GroupBy "
        "codes, groups, key_count, has_null_keys, len over dtype x container x route, plus probe traces of 3-4 keys with 46341..70000 labels each) is validated by TLC against the same relation (P1-P5).",
   note="trusted: code/label projection (gbverif/drivers/factorize.py); bounds: rows<=7 x 3 labels on the spec, rows<=12 on the code; thresholds scaled down via core.THRESHOLD_FOR_CHUNKED_FACTORIZE",
   technique="TLA+ spec GBFactorize model-checked with TLC + trace validation (Trace_GBFactorize) of real factorizations",
   ref="DESIGN.md section 6/C02"),
 "C08": dict(
   text="TLC checks the cumulative kernel machine (GBCumulative: running partial per group, one RowCum action per row; "
        "null-key and unselected rows are stutters) against the prefix-reduction definition over the row history in every "
        "state; every judged row of every recorded real cumsum/cummin/cummax/cumcount call is one observation of a RowCum "
        "action in TLC's replay (exactness through 2^53/2^55-based embeddings); groups of 33000..140000 rows are validated against the closed-form prefix definition on a periodic input.",
   note="trusted: embeddings/projection (abstract.py, drivers/rowwise.py); bounds: rows<=6 x 2 groups on the spec, rows<=60 on the code",
   technique="TLA+ spec GBCumulative model-checked with TLC + per-row trace validation (Trace_GBCumulative)",
   ref="DESIGN.md section 6/C08"),
 "C09": dict(
   text="TLC checks the rolling machine (GBRolling: per-group circular buffer, write position, non-null count, running sum / "
        "extremum with recomputation, shift/diff) against the sliding-window definition over the row history in every state "
        "(1 group rows<=6: 117M states in thorough); every judged row of every recorded real rolling_sum/mean/min/max, shift, "
        "diff call in both output layouts is one observation of a RowRoll action in TLC's replay; groups and windows beyond 2^15 / 2^16 rows are validated against closed-form window definitions on periodic inputs.",
   note="trusted: embeddings/projection incl. the mapping of the group-sorted layout back to row order; bounds: window<=3 on the spec, <=5 on the code",
   technique="TLA+ spec GBRolling model-checked with TLC + per-row trace validation (Trace_GBRolling)",
   ref="DESIGN.md section 6/C09"),
 "C05": dict(
   text="Each masked call and the same call on the harness-filtered rows are both replayed by TLC through the same deterministic machines (GBCore, GBCumulative, GBRolling, GBEma), in which an unselected row is a stutter and selection is the model-checked array-indexing operator Sel0 (GBSelMC); accepting both yields the pair relation for reductions, transform, cumulative, rolling/shift/diff and EMA.",
   note="trusted: harness-side construction of the filtered inputs (Python indexing), projections; two open known findings (plain EMA decays across masked rows; positional masks on chunked keys)",
   technique="TLA+ machines + GBSelMC model-checked with TLC; paired trace validation of masked / filtered real calls",
   ref="DESIGN.md section 6/C05"),
 "C06": dict(
   text="Each call on inputs with null keys and the same call with those rows deleted are replayed by TLC through the same machines, in which a null-key row (null in any component of a multi-key) is a stutter of every per-group state (action properties checked by TLC, with negative configurations); TLC additionally checks that the values shown at null-key rows of row-aligned outputs are one constant per operation/dtype.",
   note="trusted: harness-side deletion of rows, projections; bounds as in C01/C08/C09/C10/C15",
   technique="TLC action properties (null-key rows stutter) + paired trace validation with/without null-key rows + marker constancy traces",
   ref="DESIGN.md section 6/C06"),
 "C07": dict(
   text="Every recorded transform=True call (10 reductions incl. var/std, apply(scalar)/median) is replayed by TLC through GBCore: row r must carry the value of r's group computed by the machine (neutral/null for null keys and unselected groups), in input order, with the input's index and container kind; flat and chunked key representations.",
   note="trusted: projections, the driver's index/container observations; three open known findings (see known_findings.json)",
   technique="TLA+ spec GBCore model-checked with TLC + trace validation (Trace_GBCore, Trace_GBApply) of transform calls",
   ref="DESIGN.md section 6/C07"),
 "C10": dict(
   text="TLC checks the EMA machine (GBEma: per-group residual/weight/last output/last time in exact integer arithmetic, plain and time-weighted) against the closed-form normalised weighted mean over the row history in every state and that groups are independent; every row of every recorded ema / ema_grouped / GroupBy.ema call, recovered as an exact rational, is one observation of a RowEma action (beta in {0,1/4,1/2,3/4} given as alpha or real halflife; irregular timestamps in ns/us/s, tz-aware, before the epoch; halflives finer than the timestamps' resolution).",
   note="trusted: rational recovery (limit_denominator 2^22, 1e-12 guard), timestamp encoders; per-group length <= 7 so TLC's 32-bit integers hold the exact values",
   technique="TLA+ spec GBEma model-checked with TLC + per-row exact-rational trace validation (Trace_GBEma)",
   ref="DESIGN.md section 6/C10"),
 "C15": dict(
   text="TLC checks the scan machine (GBSelect: forward/backward scan with per-group counters, unbounded in the intended model, a 2-bit counter as negative configuration) against the rank definition for all key columns within the bounds; every recorded head/tail/nth(keep_input_index=True) call is replayed (one Visit action per row) and must return exactly the picked rows, once, with their index labels and in original order; scaled replays at group sizes straddling 2^7/2^15/2^16 are validated against the definition on run-length encoded keys; the array-level kernels find_first_n / find_last_n (with boolean masks) are replayed through the same scan.",
   note="trusted: row identity carried by the values; group sizes >= 2^31 out of reach",
   technique="TLA+ spec GBSelect model-checked with TLC + trace validation (Trace_GBSelect) incl. scaled replays",
   ref="DESIGN.md section 6/C15"),
 "C16": dict(
   text="TLC checks the one-pass variance identity against the two-pass definition for every sequence in the domain (GBStats), validates var/std results as exact rationals through GBCore, validates the sequences handed to user functions and the placement of their order-sensitive checksums for apply/median/quantile (Trace_GBApply), and checks agg/ratio/density against the primitive calls (Trace_GBCompose); the rounding clause is sampled over magnitudes.",
   note="trusted: rational recovery, recording functions; the rounding bound is judged by harness float arithmetic (outside TLA+); one open known finding",
   technique="TLA+ spec GBStats model-checked with TLC + trace validation (Trace_GBCore, Trace_GBApply, Trace_GBCompose)",
   ref="DESIGN.md section 6/C16"),
 "C03": dict(
   text="One logical call is driven through every execution strategy (thresholds scaled to 2/4 rows: chunk-wise, monotone and partially monotone key routes; 1..4 threads; keys/values as arrow ChunkedArrays incl. misaligned chunks) and each run is validated by TLC against the same GBCore machine, so all strategies agree; TLC explores every completion order of the pool (GBParallel) and block merge (GBReduce); every completion order of 2..4 tasks is forced in the real ThreadPoolExecutor and validated as a trace; scaled replays at the real 1,000,000-row switch-over are validated through the blow-up law (a TLC invariant of GBCore).  The chunked-key block pipeline is its own machine (GBChunked: Arrow's slice of the code array, first-chunk search, one task per piece, merge through the pointer tables with counts; invariants MergedIsDef, PointerAligned, PartialIsPieceDef, 5 negative configurations) and every real reduction on chunked keys is replayed through it with the per-piece partials logged by hook H6 and count_ikey; the pool model (GBParallel) also covers the inline single-task path, FIFO start under a worker bound, raising tasks (first exception met is re-raised), parallel_reduce and termination, each bound by forced-schedule traces; in the other direction every terminal state TLC reaches in GBParallel and (a sample of) the terminal states of GBChunked are dumped by TLC and replayed into the real pool / a real grouping, which must end in the state's values.  Supplement: TLAPS proves Spec => []GatheredByIndex for an unbounded number of tasks (spec/proofs/GBGatherProof.tla, 30 obligations, re-proved by every run).",
   note="trusted: harness-side scheduler (subclass of the real ThreadPoolExecutor), threshold scaling via the module global and hook H3, projections",
   technique="TLA+ specs GBParallel/GBReduce/GBCore/GBChunked model-checked with TLC (safety + one liveness property) + trace validation of strategy-product runs, chunk-pipeline runs with hook-logged partials, forced pool schedules and scaled replays",
   ref="DESIGN.md section 6/C03"),
 "C11": dict(
   text="Label order, listing (observed_only), sort off/on, category order and multi-key lexicographic order are validated by TLC through GBCore on every recorded call (exhaustive small inputs x flags, random 2-3-key groupings); result kind, Series name, index level names and column labels for every way of passing keys and values are validated by Trace_GBShape, and every column of a multi-input result is validated as its own single-input GBCore trace.",
   note="trusted: projection of names/kinds/labels; labels invented for unnamed inputs are not judged",
   technique="TLA+ spec GBCore model-checked with TLC + trace validation (Trace_GBCore per column, Trace_GBShape)",
   ref="DESIGN.md section 6/C11"),
 "C13": dict(
   text="TLC enumerates every history of the 11 operation classes over the three key representations (GBObject; invariants: every operation enabled in every state, no way back to local codes); the labelled state graph is dumped and every transition is replayed on real GroupBy objects (several key arrays, flat and chunked), plus random walks of 10..30 operations; each call is compared with the same call on a freshly built grouping and each recorded history is validated by TLC against GBObject.  The environment action Refill models a caller that reuses one mask / values buffer and rewrites it in place between calls (negative configuration MemoByIdentity); the real histories do the same.",
   note="trusted: driver-side equality with the fresh object's result; representation projection reads one private attribute (skipped if unobservable)",
   technique="TLA+ spec GBObject model-checked with TLC, state graph replayed transition by transition into the real object, histories trace-validated",
   ref="DESIGN.md section 6/C13"),
 "C14": dict(
   text="TLC checks that re-aggregating per-group partials over the other key levels equals aggregating the summarised rows directly "
        "(GBMargins: sum/count/size add, min/max are extremes, mean = total sum / total count; the mean-of-means machine is the negative "
        "configuration) for every table within the bounds; every recorded real GroupBy.<op>(margins=...) result and crosstab(...) table "
        "(all 1-key inputs up to 3/4 rows, 2-3 key draws, every subset of margin levels, masks) is validated cell by cell by TLC against "
        "the aggregate computed by the spec from the input rows.",
   note="trusted: projection of result tables to (label tuple -> exact rational) cells (gbverif/drivers/margins.py); cells of empty selections are not judged (the property does not state them)",
   technique="TLA+ spec GBMargins model-checked with TLC + trace validation (Trace_GBMargins) of real margins / crosstab results",
   ref="DESIGN.md section 6/C14"),
 "C17": dict(
   text="The facade's result, the core engine's result on the selected value columns and pandas' result are projected to the same trace "
        "formats and validated by TLC against the same model-checked machines (GBCore for aggregations, GBCumulative, GBRolling, the "
        "partition relation of GBFactorize for iteration) plus Trace_GBFacade (which columns appear in the result); inputs: every key "
        "column up to 3/4 rows x by column(s)/array/level/mixture x 5 index kinds x [] selection x 10 aggregations, 4 cumulative, 4 rolling "
        "methods (window 1..3, min_periods None / 0..window) and iteration.",
   note="trusted: projections in gbverif/drivers/facade.py; pandas is only a second implementation fed to the same spec, never the oracle",
   technique="TLA+ specs GBCore/GBCumulative/GBRolling/GBFactorize model-checked with TLC + trace validation of facade, core and pandas runs against the same specs",
   ref="DESIGN.md section 6/C17"),
 "C18": dict(
   text="TLC checks the validation pipeline model (GBValidate: length check, index identity check, conversion, kernel guard as separate "
        "actions; configurations without the length / index check are the negative runs) for MisalignedRejected and AlignedAccepted; the "
        "whole domain of (public operation x array argument x length delta -2..+2 x index relation identical/permuted/shifted/duplicated/"
        "absent) is executed on the real code and each outcome (return / exception) is validated by TLC against the pipeline.",
   note="trusted: the classification of an outcome as return/raise; the domain is finite and executed completely",
   technique="TLA+ spec GBValidate model-checked with TLC + trace validation (Trace_GBValidate) of every (operation, argument, misalignment) outcome",
   ref="DESIGN.md section 6/C18"),
 "C20": dict(
   text="TLC checks the chunked reduce machine (GBNanops: per-thread block partials, null skipping, reduce of block results; an empty "
        "block that contributes garbage and a split that loses the last element are the negative configurations; invariant BlocksPartition) against the NaN-aware definition for all arrays within the bounds "
        "and all thread counts; every recorded nan*/count call (all arrays up to length 5/7 over {nan,1,2,3} x 1..8 threads, float and "
        "integer dtypes, 2-D by axis; every (length, thread count) pair up to 160/600 rows x 8 threads), nb_dot, bools_to_categorical and pretty_cut call is validated by TLC (exact rationals; printed bin "
        "bounds parsed back and checked to contain the value).",
   note="trusted: rational recovery, parsing of printed bin labels; var/std rounding judged with a 1e-9 relative bound harness-side before rational recovery",
   technique="TLA+ spec GBNanops model-checked with TLC + trace validation (Trace_GBHelpers) of real helper calls",
   ref="DESIGN.md section 6/C20"),
 "C19": dict(
   text="TLC enumerates every history of calls (12 operation classes) and caller writes through held results over the buffer model "
        "(GBMemory: 4 caller inputs, logical codes/labels, 4 lazily filled caches with their fill order and sources; invariants "
        "InputsIntact, GroupingIntact, Repeatable, CachesIntact; 4 negative configurations).  Real histories on one grouping object "
        "(one replay per transition of TLC's dumped state graph, ordered pairs of the 56 concrete methods with a write through the "
        "first result in between, every method x 18 value containers (incl. caller-owned lists / dicts holding temporal columns) x 5 mask kinds, random walks) are validated step by step: "
        "byte-level snapshots of every input, logical codes/labels and every filled cache against a fresh grouping on pristine "
        "inputs, np.shares_memory between result and every buffer, bit-exact equality of each result with the fresh grouping's.",
   note="trusted: snapshot / alias observation in gbverif/drivers/memory.py (reads pandas' block reference tracker to recognise copy-on-write protection); state accessors (group_ikey, ikey_count, result_index) are not written through",
   technique="TLA+ spec GBMemory model-checked with TLC, state graph replayed into the real object, histories trace-validated (Trace_GBMemory)",
   ref="DESIGN.md section 6/C19"),
 "C12": dict(
   text="TLC checks the dtype flow machine (GBDtype: container -> NumPy with temporal data viewed as int64 and the logical type "
        "remembered, accumulator dtype per operation family, restoration incl. time unit and time zone; invariants SelectionKeepsDtype, "
        "TemporalExact, IntSumIs64, CountIsNumber, DiffIsDuration; 4 negative configurations) for every dtype x family.  Every real call "
        "over 20 value dtypes x 11 value containers x drawn key container/dtype x reductions, cumulative, rolling extremes/shift/diff and "
        "head/tail/nth is validated twice by TLC: labels and numbers against the same deterministic machines as C01/C08/C09/C15 (so every "
        "container gives the machine's answer, exactly, with values at 2^53 / 2^55 ns and integer sums beyond 32 bits), and the logical "
        "result dtype against GBDtype.",
   note="trusted: dtdesc (logical dtype of NumPy / pandas / polars / pyarrow objects), embeddings; result dtypes judged only where the property states them; a float NaN is supplied as a real null in arrow / polars containers",
   technique="TLA+ spec GBDtype model-checked with TLC + trace validation (Trace_GBDtype, Trace_GBCore, Trace_GBCumulative, Trace_GBRolling, Trace_GBSelect) of container x dtype products",
   ref="DESIGN.md section 6/C12"),
}
REASONS = {}
props = [json.loads(l) for l in open("/verif/properties.jsonl")]
hooks = subprocess.run(["git", "-C", "/repo", "log", "--format=%h %s"], capture_output=True, text=True).stdout.splitlines()
hook_commits = [l.split()[0] for l in hooks if l.split(" ", 1)[1].startswith("verif hook")]
m = {
 "version": 1,
 "setup_cmd": "cd /verif && /venv/bin/python -m gbverif.setup",
 "hooks": {"guard": "GROUPBY_LIB_VERIF", "enable": "GROUPBY_LIB_VERIF=1 in the environment (set by gbverif/env.py); the package is imported in place from /repo",
           "baseline_off_cmd": "cd /repo && env -u GROUPBY_LIB_VERIF /venv/bin/python -m pytest -ra -q -p no:cacheprovider --timeout=900 --continue-on-collection-errors",
           "source_commits": hook_commits, "add_only": True},
 "engines": [{"name": "tlc", "path": "/opt/veriftools/tla/tla2tools.jar", "serves_properties": sorted(CLAIMED),
              "kind_free_text": "TLA+ specifications under /verif/spec model-checked with TLC; real executions validated as traces against the same specifications"},
             {"name": "tlapm", "path": "/opt/veriftools/tlapm", "serves_properties": ["C03", "C04"],
              "kind_free_text": "TLA+ proof system: spec/proofs/GBMergeLemmas.tla (merge algebra of the block law over unbounded integers, C04) and spec/proofs/GBGatherProof.tla (parallel_map gathers by index for any number of tasks and any completion order: inductive invariant, C03); supplements to the TLC claims"}],
 "checks": [], "not_applicable": [],
 "notes": "Model-based verification with explicit TLA+ specifications (see DESIGN.md). exit 0 = held, 1 = VIOLATION line, 2 = machinery failure.",
}
for p in props:
    pid = p["id"]
    if pid in CLAIMED:
        c = CLAIMED[pid]
        m["checks"].append({
            "property_id": pid, "quick_cmd": f"./check {pid} --tier quick", "thorough_cmd": f"./check {pid} --tier thorough",
            "evidence_file": f"/verif/evidence/{pid}.json", "replay_cmd_template": f"./check {pid} --replay {{path}}",
            "engine": "tlc", "level_claimed": {"category": "model_checking", "text": c["text"], "design_ref": c["ref"]},
            "level_note": c["note"], "technique": c["technique"]})
    else:
        m["not_applicable"].append({"property_id": pid, "reason": REASONS.get(pid, "check not built yet (work in progress in this session; see DESIGN.md section 6 for the planned TLA+ model and binding)")})
json.dump(m, open("/verif/MANIFEST.json", "w"), indent=1)
import sys; sys.path.insert(0, "/opt/veriftools/pyvenv/lib/python3.11/site-packages")
try:
    import jsonschema
except Exception:
    jsonschema = None
if jsonschema: jsonschema.validate(m, json.load(open("/root/.vp/MANIFEST.schema.json")))
print("MANIFEST ok:", len(m["checks"]), "checks,", len(m["not_applicable"]), "not applicable")
