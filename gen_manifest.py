#!/venv/bin/python
"""Regenerate MANIFEST.json from the table below (single source of truth for the interface)."""
import json, subprocess
CLAIMED = {
 "C04": dict(
   text="TLC explores the kernel state machine (GBReduce: one action per row, per block boundary/merge) exhaustively "
        "within small constants and checks block-wise == single-pass == per-group definition in every state; every "
        "recorded call of the real numba.group_* kernels (all inputs up to length 3/4, all kernels, dtype classes, mask "
        "kinds, thread counts, arrow chunk layouts) is replayed through the same actions by TLC and accepted only if the "
        "returned arrays equal the machine's state.",
   note="trusted: value embeddings/projections (gbverif/abstract.py), TLC; bounds: rows<=7, 2-3 groups on the spec, rows<=6 on the code",
   technique="TLA+ spec GBReduce model-checked with TLC + batch trace validation (Trace_GBReduce) of real kernel calls",
   ref="DESIGN.md section 6/C04"),
 "C01": dict(
   text="TLC checks the GroupBy reduction pipeline model (GBCore: factorization row by row, kernel step per selected row, "
        "observed filter, ordering) against the per-group definition computed from the input history in every state; every "
        "recorded real GroupBy.<reduction> call (all inputs up to length 3/4 x 8 reductions, key/value dtype covering draws, "
        "mask kinds) is replayed through the same actions and accepted only if labels and values equal the machine's.",
   note="trusted: pandas result projection and encoders (gbverif/drivers/api.py, abstract.py), TLC; bounds: rows<=5 on the spec, rows<=40 on the code",
   technique="TLA+ spec GBCore model-checked with TLC + batch trace validation (Trace_GBCore) of real GroupBy calls",
   ref="DESIGN.md section 6/C01"),
 "C02": dict(
   text="TLC explores every factorization route as a state machine (GBFactorize: plain dictionary, mixed-radix multi-key, "
        "monotone prefix scan, chunk tasks finishing in any order, pointer tables, unification) over all key arrays within the "
        "bounds and checks the faithful-partition relation P1-P4; every recorded real factorization (factorize_1d/2d, GroupBy "
        "codes, groups, key_count over dtype x container x route) is validated by TLC against the same relation (P1-P5).",
   note="trusted: code/label projection (gbverif/drivers/factorize.py); bounds: rows<=7 x 3 labels on the spec, rows<=12 on the code; thresholds scaled down via core.THRESHOLD_FOR_CHUNKED_FACTORIZE",
   technique="TLA+ spec GBFactorize model-checked with TLC + trace validation (Trace_GBFactorize) of real factorizations",
   ref="DESIGN.md section 6/C02"),
 "C08": dict(
   text="TLC checks the cumulative kernel machine (GBCumulative: running partial per group, one RowCum action per row; "
        "null-key and unselected rows are stutters) against the prefix-reduction definition over the row history in every "
        "state; every judged row of every recorded real cumsum/cummin/cummax/cumcount call is one observation of a RowCum "
        "action in TLC's replay (exactness through 2^53/2^55-based embeddings).",
   note="trusted: embeddings/projection (abstract.py, drivers/rowwise.py); bounds: rows<=6 x 2 groups on the spec, rows<=60 on the code",
   technique="TLA+ spec GBCumulative model-checked with TLC + per-row trace validation (Trace_GBCumulative)",
   ref="DESIGN.md section 6/C08"),
 "C09": dict(
   text="TLC checks the rolling machine (GBRolling: per-group circular buffer, write position, non-null count, running sum / "
        "extremum with recomputation, shift/diff) against the sliding-window definition over the row history in every state "
        "(1 group rows<=6: 117M states in thorough); every judged row of every recorded real rolling_sum/mean/min/max, shift, "
        "diff call in both output layouts is one observation of a RowRoll action in TLC's replay.",
   note="trusted: embeddings/projection incl. the mapping of the group-sorted layout back to row order; bounds: window<=3 on the spec, <=5 on the code",
   technique="TLA+ spec GBRolling model-checked with TLC + per-row trace validation (Trace_GBRolling)",
   ref="DESIGN.md section 6/C09"),
}
REASONS = {}
props = [json.loads(l) for l in open("/verif/properties.jsonl")]
hooks = subprocess.run(["git", "-C", "/repo", "log", "--format=%h %s"], capture_output=True, text=True).stdout.splitlines()
hook_commits = [l.split()[0] for l in hooks if l.split(" ", 1)[1].startswith("verif hook")]
m = {
 "version": 1,
 "setup_cmd": "cd /verif && /venv/bin/python -m gbverif.setup",
 "hooks": {"guard": "GROUPBY_LIB_VERIF", "enable": "GROUPBY_LIB_VERIF=1 in the environment (set by gbverif/env.py); the package is imported in place from /repo",
           "baseline_off_cmd": "cd /repo && env -u GROUPBY_LIB_VERIF /venv/bin/python -m pytest -ra -q -p no:cacheprovider --timeout=900 --continue-on-collection-errors",
           "source_commits": hook_commits, "add_only": True},
 "engines": [{"name": "tlc", "path": "/opt/veriftools/tla/tla2tools.jar", "serves_properties": sorted(CLAIMED),
              "kind_free_text": "TLA+ specifications under /verif/spec model-checked with TLC; real executions validated as traces against the same specifications"}],
 "checks": [], "not_applicable": [],
 "notes": "Model-based verification with explicit TLA+ specifications (see DESIGN.md). exit 0 = held, 1 = VIOLATION line, 2 = machinery failure.",
}
for p in props:
    pid = p["id"]
    if pid in CLAIMED:
        c = CLAIMED[pid]
        m["checks"].append({
            "property_id": pid, "quick_cmd": f"./check {pid} --tier quick", "thorough_cmd": f"./check {pid} --tier thorough",
            "evidence_file": f"/verif/evidence/{pid}.json", "replay_cmd_template": f"./check {pid} --replay {{path}}",
            "engine": "tlc", "level_claimed": {"category": "model_checking", "text": c["text"], "design_ref": c["ref"]},
            "level_note": c["note"], "technique": c["technique"]})
    else:
        m["not_applicable"].append({"property_id": pid, "reason": REASONS.get(pid, "check not built yet (work in progress in this session; see DESIGN.md section 6 for the planned TLA+ model and binding)")})
json.dump(m, open("/verif/MANIFEST.json", "w"), indent=1)
import sys; sys.path.insert(0, "/opt/veriftools/pyvenv/lib/python3.11/site-packages")
try:
    import jsonschema
except Exception:
    jsonschema = None
if jsonschema: jsonschema.validate(m, json.load(open("/root/.vp/MANIFEST.schema.json")))
print("MANIFEST ok:", len(m["checks"]), "checks,", len(m["not_applicable"]), "not applicable")
