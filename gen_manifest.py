#!/venv/bin/python
"""Regenerate MANIFEST.json from the table below (single source of truth for the interface)."""
import json, subprocess
CLAIMED = {
 "C04": dict(
   text="TLC explores the kernel state machine (GBReduce: one action per row, per block boundary/merge) exhaustively "
        "within small constants and checks block-wise == single-pass == per-group definition in every state; every "
        "recorded call of the real numba.group_* kernels (all inputs up to length 3/4, all kernels, dtype classes, mask "
        "kinds, thread counts, arrow chunk layouts) is replayed through the same actions by TLC and accepted only if the "
        "returned arrays equal the machine's state.",
   note="trusted: value embeddings/projections (gbverif/abstract.py), TLC; bounds: rows<=7, 2-3 groups on the spec, rows<=6 on the code",
   technique="TLA+ spec GBReduce model-checked with TLC + batch trace validation (Trace_GBReduce) of real kernel calls",
   ref="DESIGN.md section 6/C04"),
}
REASONS = {}
props = [json.loads(l) for l in open("/verif/properties.jsonl")]
hooks = subprocess.run(["git", "-C", "/repo", "log", "--format=%h %s"], capture_output=True, text=True).stdout.splitlines()
hook_commits = [l.split()[0] for l in hooks if l.split(" ", 1)[1].startswith("verif hook")]
m = {
 "version": 1,
 "setup_cmd": "cd /verif && /venv/bin/python -m gbverif.setup",
 "hooks": {"guard": "GROUPBY_LIB_VERIF", "enable": "GROUPBY_LIB_VERIF=1 in the environment (set by gbverif/env.py); the package is imported in place from /repo",
           "baseline_off_cmd": "cd /repo && env -u GROUPBY_LIB_VERIF /venv/bin/python -m pytest -ra -q -p no:cacheprovider --timeout=900 --continue-on-collection-errors",
           "source_commits": hook_commits, "add_only": True},
 "engines": [{"name": "tlc", "path": "/opt/veriftools/tla/tla2tools.jar", "serves_properties": sorted(CLAIMED),
              "kind_free_text": "TLA+ specifications under /verif/spec model-checked with TLC; real executions validated as traces against the same specifications"}],
 "checks": [], "not_applicable": [],
 "notes": "Model-based verification with explicit TLA+ specifications (see DESIGN.md). exit 0 = held, 1 = VIOLATION line, 2 = machinery failure.",
}
for p in props:
    pid = p["id"]
    if pid in CLAIMED:
        c = CLAIMED[pid]
        m["checks"].append({
            "property_id": pid, "quick_cmd": f"./check {pid} --tier quick", "thorough_cmd": f"./check {pid} --tier thorough",
            "evidence_file": f"/verif/evidence/{pid}.json", "replay_cmd_template": f"./check {pid} --replay {{path}}",
            "engine": "tlc", "level_claimed": {"category": "model_checking", "text": c["text"], "design_ref": c["ref"]},
            "level_note": c["note"], "technique": c["technique"]})
    else:
        m["not_applicable"].append({"property_id": pid, "reason": REASONS.get(pid, "check not built yet (work in progress in this session; see DESIGN.md section 6 for the planned TLA+ model and binding)")})
json.dump(m, open("/verif/MANIFEST.json", "w"), indent=1)
import sys; sys.path.insert(0, "/opt/veriftools/pyvenv/lib/python3.11/site-packages")
try:
    import jsonschema
except Exception:
    jsonschema = None
if jsonschema: jsonschema.validate(m, json.load(open("/root/.vp/MANIFEST.schema.json")))
print("MANIFEST ok:", len(m["checks"]), "checks,", len(m["not_applicable"]), "not applicable")
