#!/bin/sh
# run the repository's pinned suite with the hook guard OFF; $1 = tag
cd /repo && env -u GROUPBY_LIB_VERIF /venv/bin/python -m pytest -q -p no:cacheprovider --timeout=900 --continue-on-collection-errors --junitxml=/tmp/base_$1.xml > /tmp/base_$1.log 2>&1
echo "exit $?" >> /tmp/base_$1.log
