#!/bin/sh
# TLC action coverage of the positive model-checking configurations kept under work/mc_* (written by the last runs of the checks):
# prints, per configuration, every action of the module with the number of times TLC took it; an action with count 0 was never exercised.
cd /verif/spec
JAR=$(/venv/bin/python -c "import sys; sys.path.insert(0,'/verif'); from gbverif import tlc; print(tlc.JAR)" 2>/dev/null | tail -1)
for d in ../work/mc_*; do
  n=$(basename $d)
  case $n in *neg_*) continue;; esac
  cfg=$(ls $d/*.cfg 2>/dev/null | head -1); [ -z "$cfg" ] && continue
  mod=$(grep -m1 "^Parsing file /verif/spec/" $d/out.txt | sed -E 's#.*/spec/([A-Za-z_0-9]+)\.tla#\1#')
  [ -z "$mod" ] && continue
  echo "== $n ($mod)"
  rm -rf /verif/work/cov_meta
  timeout ${COV_TIMEOUT:-300} java -Xss64m -Xmx8g -XX:+UseParallelGC -cp $JAR tlc2.TLC -workers 8 -coverage 1 -metadir /verif/work/cov_meta -noGenerateSpecTE -config $cfg $mod.tla 2>&1 | grep -E "^<[^ ]+ line .* of module $mod>: [0-9]+:[0-9]+" | sed -E 's/ line [0-9]+, col [0-9]+ to line [0-9]+, col [0-9]+ of module [A-Za-z_0-9]+//' | sort -u
done
