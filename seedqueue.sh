#!/bin/sh
# seedqueue.sh <sid> <worktree> "<test files>" "<checks>"  -- confirm + detect-scratch, sequentially (shared scratch worktrees)
sid=$1; wt=$2; tests=$3; checks=$4
mkdir -p /tmp/seedlogs
exec >> /tmp/seedlogs/$sid.log 2>&1
flock /tmp/seedlogs/.lock sh -c "cd /verif && ./seedtool.py confirm $sid $wt/seed/patch.diff $wt/seed/demo.py $tests && ./seedtool.py detect-scratch $sid $checks"
echo QUEUE-DONE $sid
