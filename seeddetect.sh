#!/bin/sh
# seeddetect.sh <sid> "<checks>"  -- detect-scratch under the same lock as seedqueue.sh
sid=$1; checks=$2
mkdir -p /tmp/seedlogs
flock /tmp/seedlogs/.lock sh -c "cd /verif && ./seedtool.py detect-scratch $sid $checks" >> /tmp/seedlogs/$sid.log 2>&1
tail -3 /tmp/seedlogs/$sid.log
